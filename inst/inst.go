// Package inst rewrites a scratch copy of go-bexpr so that every statement is
// preceded by a verifsim.Yield call, every map-iteration order choice goes
// through the simulator, and the blocking primitives a future fix might use are
// modelled cooperatively. Nothing in /repo is touched: the rewritten twin of
// X.go is written as X_verif.go (//go:build verif) and X.go is re-tagged
// //go:build !verif inside the scratch copy.
package inst

import (
	"bytes"
	"encoding/json"
	"fmt"
	"go/ast"
	"go/parser"
	"go/printer"
	"go/token"
	"go/types"
	"os"
	"path/filepath"
	"sort"
	"strconv"
	"strings"

	"golang.org/x/tools/go/ast/astutil"
	"golang.org/x/tools/go/packages"
)

const SimImport = "verif.local/verifsim"

// Site mirrors verifsim.Site plus bookkeeping for the driver.
type Site struct {
	ID    int    `json:"id"`
	Pkg   string `json:"pkg"`
	File  string `json:"file"`
	Line  int    `json:"line"`
	Func  string `json:"func"`
	Entry bool   `json:"entry,omitempty"`
	Store bool   `json:"store,omitempty"`
	Sync  bool   `json:"sync,omitempty"`
	Kind  string `json:"kind,omitempty"` // "", "mapkeys", "maprange", "rangemap"
}

// Report is what the instrumenter found and did.
type Report struct {
	Sites      []Site   `json:"-"`
	NSites     int      `json:"n_sites"`
	NStore     int      `json:"n_store_sites"`
	NSync      int      `json:"n_sync_sites"`
	OrderSeams []string `json:"order_seams"`
	Unseamed   []string `json:"unseamed_order_sites"`
	ClockSeams []string `json:"clock_seams"`
	RandSeams  []string `json:"rand_seams"`
	Unmodelled []string `json:"unmodelled_blocking_sites"`
	Modelled   []string `json:"modelled_blocking_sites"`
	Packages   []string `json:"packages"`
	Files      []string `json:"files"`
}

type pendingChild struct {
	fl  *ast.FuncLit
	tok string
}

type rw struct {
	touched map[string]bool // imports whose uses were (partly) rewritten away
	pending []pendingChild
	fset    *token.FileSet
	info    *types.Info
	pkg     *packages.Package
	rep     *Report
	file    string
	fn      string
	owned   map[types.Object]bool // receiver and parameters of the enclosing declared function
	tmpN    int
	comm    map[ast.Node]bool // communication statements of select clauses: rewritten with their select
}

// Instrument rewrites the module rooted at dir (a scratch copy of /repo) in
// place. env is the environment for `go list`.
func Instrument(dir string, simDir string, env []string) (*Report, error) {
	fset := token.NewFileSet()
	cfg := &packages.Config{
		Mode: packages.NeedName | packages.NeedFiles | packages.NeedCompiledGoFiles | packages.NeedSyntax |
			packages.NeedTypes | packages.NeedTypesInfo | packages.NeedImports | packages.NeedDeps | packages.NeedModule,
		Dir:  dir,
		Env:  env,
		Fset: fset,
		ParseFile: func(fset *token.FileSet, filename string, src []byte) (*ast.File, error) {
			// comment-free parse: the rewritten files are printed from these trees
			return parser.ParseFile(fset, filename, src, parser.AllErrors)
		},
	}
	pkgs, err := packages.Load(cfg, "./...")
	if err != nil {
		return nil, fmt.Errorf("load: %w", err)
	}
	rep := &Report{}
	var targets []*packages.Package
	for _, p := range pkgs {
		if len(p.Errors) > 0 {
			return nil, fmt.Errorf("package %s does not type-check: %v", p.PkgPath, p.Errors[0])
		}
		if p.Name == "main" {
			continue
		}
		targets = append(targets, p)
	}
	sort.Slice(targets, func(i, j int) bool { return targets[i].PkgPath < targets[j].PkgPath })
	for _, p := range targets {
		base := len(rep.Sites)
		rep.Packages = append(rep.Packages, p.PkgPath)
		for i, f := range p.Syntax {
			name := p.CompiledGoFiles[i]
			if strings.HasSuffix(name, "_test.go") || !strings.HasPrefix(name, dir) {
				continue
			}
			r := &rw{fset: fset, info: p.TypesInfo, pkg: p, rep: rep, file: filepath.Base(name), touched: map[string]bool{}}
			if err := r.rewriteFile(f, name); err != nil {
				return nil, err
			}
			rel, _ := filepath.Rel(dir, name)
			rep.Files = append(rep.Files, rel)
		}
		if err := writeSiteTable(filepath.Dir(p.CompiledGoFiles[0]), p.Name, base, rep.Sites[base:]); err != nil {
			return nil, err
		}
	}
	rep.NSites = len(rep.Sites)
	for _, s := range rep.Sites {
		if s.Store {
			rep.NStore++
		}
	}
	// go.mod of the scratch copy
	gm := filepath.Join(dir, "go.mod")
	b, err := os.ReadFile(gm)
	if err != nil {
		return nil, err
	}
	b = append(b, []byte(fmt.Sprintf("\nrequire %s v0.0.0\n\nreplace %s => %s\n", SimImport, SimImport, simDir))...)
	if err := os.WriteFile(gm, b, 0o644); err != nil {
		return nil, err
	}
	js, _ := json.MarshalIndent(rep.Sites, "", " ")
	if err := os.WriteFile(filepath.Join(dir, "verif_sites.json"), js, 0o644); err != nil {
		return nil, err
	}
	return rep, nil
}

func writeSiteTable(dir, pkgName string, base int, sites []Site) error {
	var b bytes.Buffer
	fmt.Fprintf(&b, "//go:build verif\n\npackage %s\n\nimport verifsim %q\n\nfunc init() {\n\tverifsim.RegisterSites(%d, []verifsim.Site{\n", pkgName, SimImport, base)
	for _, s := range sites {
		fmt.Fprintf(&b, "\t\t{File: %q, Line: %d, Func: %q, Entry: %v, Store: %v, Sync: %v},\n", s.File, s.Line, s.Func, s.Entry, s.Store, s.Sync)
	}
	b.WriteString("\t})\n}\n")
	return os.WriteFile(filepath.Join(dir, "zz_verifsites_verif.go"), b.Bytes(), 0o644)
}

func (r *rw) newSite(pos token.Pos, entry, store bool, kind string) int {
	id := len(r.rep.Sites)
	line := 0
	if pos.IsValid() {
		line = r.fset.Position(pos).Line
	}
	r.rep.Sites = append(r.rep.Sites, Site{ID: id, Pkg: r.pkg.PkgPath, File: r.file, Line: line, Func: r.fn, Entry: entry, Store: store, Kind: kind})
	return id
}

func simCall(name string, args ...ast.Expr) *ast.CallExpr {
	return &ast.CallExpr{Fun: &ast.SelectorExpr{X: ast.NewIdent("verifsim"), Sel: ast.NewIdent(name)}, Args: args}
}

func intLit(n int) ast.Expr { return &ast.BasicLit{Kind: token.INT, Value: strconv.Itoa(n)} }

func (r *rw) where(pos token.Pos) string {
	p := r.fset.Position(pos)
	return fmt.Sprintf("%s:%d (%s)", r.file, p.Line, r.fn)
}

func funcName(d *ast.FuncDecl) string {
	if d.Recv == nil || len(d.Recv.List) == 0 {
		return d.Name.Name
	}
	var b bytes.Buffer
	printer.Fprint(&b, token.NewFileSet(), d.Recv.List[0].Type)
	return "(" + b.String() + ")." + d.Name.Name
}

type body struct {
	b     *ast.BlockStmt
	fn    string
	owned map[types.Object]bool
}

func (r *rw) rewriteFile(f *ast.File, path string) error {
	// collect function bodies (declared functions and literals) before touching anything
	var bodies []body
	for _, d := range f.Decls {
		fd, ok := d.(*ast.FuncDecl)
		if !ok {
			// package-level initialisers may contain function literals
			r.collectLits(d, "init·"+r.file, nil, &bodies)
			continue
		}
		if fd.Body == nil {
			continue
		}
		owned := map[types.Object]bool{}
		addFields := func(fl *ast.FieldList) {
			if fl == nil {
				return
			}
			for _, fld := range fl.List {
				for _, n := range fld.Names {
					if o := r.info.Defs[n]; o != nil {
						owned[o] = true
					}
				}
			}
		}
		addFields(fd.Recv)
		addFields(fd.Type.Params)
		name := funcName(fd)
		bodies = append(bodies, body{fd.Body, name, owned})
		r.collectLits(fd.Body, name, owned, &bodies)
	}

	// pass A: expression-level seams
	for _, bd := range bodies {
		r.fn = bd.fn
		r.exprSeams(bd.b)
	}
	// pass B: yields and range-over-map
	for _, bd := range bodies {
		r.fn = bd.fn
		r.owned = bd.owned
		bd.b.List = r.list(bd.b.List, true, bd.b.Lbrace)
	}
	for _, pc := range r.pending {
		enter := &ast.ExprStmt{X: simCall("ChildEnter", ast.NewIdent(pc.tok))}
		exit := &ast.DeferStmt{Call: simCall("ChildExit", ast.NewIdent(pc.tok))}
		pc.fl.Body.List = append([]ast.Stmt{enter, exit}, pc.fl.Body.List...)
	}
	r.pending = nil
	astutil.AddNamedImport(r.fset, f, "verifsim", SimImport)
	for path := range r.touched {
		if !astutil.UsesImport(f, path) {
			astutil.DeleteImport(r.fset, f, path)
		}
	}

	var out bytes.Buffer
	src, err := os.ReadFile(path)
	if err != nil {
		return err
	}
	constraint := buildConstraint(src)
	if constraint != "" {
		fmt.Fprintf(&out, "//go:build (%s) && verif\n\n", constraint)
	} else {
		out.WriteString("//go:build verif\n\n")
	}
	if err := (&printer.Config{Mode: printer.UseSpaces | printer.TabIndent, Tabwidth: 8}).Fprint(&out, r.fset, f); err != nil {
		return fmt.Errorf("print %s: %w", path, err)
	}
	twin := strings.TrimSuffix(path, ".go") + "_verif.go"
	if err := os.WriteFile(twin, out.Bytes(), 0o644); err != nil {
		return err
	}
	// re-tag the original
	var orig bytes.Buffer
	if constraint != "" {
		fmt.Fprintf(&orig, "//go:build (%s) && !verif\n\n", constraint)
		orig.Write(stripConstraint(src))
	} else {
		orig.WriteString("//go:build !verif\n\n")
		orig.Write(src)
	}
	return os.WriteFile(path, orig.Bytes(), 0o644)
}

func buildConstraint(src []byte) string {
	for _, line := range strings.Split(string(src), "\n") {
		t := strings.TrimSpace(line)
		if strings.HasPrefix(t, "//go:build ") {
			return strings.TrimSpace(strings.TrimPrefix(t, "//go:build "))
		}
		if strings.HasPrefix(t, "package ") {
			break
		}
	}
	return ""
}

func stripConstraint(src []byte) []byte {
	lines := strings.Split(string(src), "\n")
	var out []string
	seenPkg := false
	for _, line := range lines {
		t := strings.TrimSpace(line)
		if !seenPkg && (strings.HasPrefix(t, "//go:build ") || strings.HasPrefix(t, "// +build ")) {
			continue
		}
		if strings.HasPrefix(t, "package ") {
			seenPkg = true
		}
		out = append(out, line)
	}
	return []byte(strings.Join(out, "\n"))
}

func (r *rw) collectLits(n ast.Node, fn string, owned map[types.Object]bool, out *[]body) {
	ast.Inspect(n, func(x ast.Node) bool {
		if fl, ok := x.(*ast.FuncLit); ok {
			*out = append(*out, body{fl.Body, fn + ".func", owned})
		}
		return true
	})
}

// ---- pass A ---------------------------------------------------------------

func isNamed(t types.Type, pkg, name string) bool {
	if t == nil {
		return false
	}
	if p, ok := t.(*types.Pointer); ok {
		t = p.Elem()
	}
	n, ok := t.(*types.Named)
	if !ok {
		return false
	}
	o := n.Obj()
	return o != nil && o.Pkg() != nil && o.Pkg().Path() == pkg && o.Name() == name
}

// exprSeams rewrites calls inside one function body, not descending into
// nested function literals (they are bodies of their own).
func (r *rw) exprSeams(b *ast.BlockStmt) {
	astutil.Apply(b, func(c *astutil.Cursor) bool {
		switch n := c.Node().(type) {
		case *ast.FuncLit:
			return false // nested literals are bodies of their own
		case *ast.CommClause:
			// the communication itself is rewritten together with the select (pass B)
			if n.Comm != nil {
				if r.comm == nil {
					r.comm = map[ast.Node]bool{}
				}
				r.comm[n.Comm] = true
				if nestedRecv(n.Comm) {
					r.rep.Unmodelled = append(r.rep.Unmodelled, "receive nested inside a select communication at "+r.where(n.Pos()))
				}
			}
		case *ast.SendStmt:
			if r.comm[n] {
				return false
			}
			r.rep.Modelled = append(r.rep.Modelled, "channel send at "+r.where(n.Pos()))
			c.Replace(&ast.ExprStmt{X: simCall("Send", n.Chan, n.Value)})
		case *ast.ExprStmt:
			if r.comm[n] {
				return false
			}
		case *ast.AssignStmt:
			if r.comm[n] {
				return false
			}
		case *ast.UnaryExpr:
			if n.Op == token.ARROW {
				r.rep.Modelled = append(r.rep.Modelled, "channel receive at "+r.where(n.Pos()))
				name := "Recv"
				switch par := c.Parent().(type) {
				case *ast.AssignStmt:
					if len(par.Lhs) == 2 && len(par.Rhs) == 1 {
						name = "Recv2"
					}
				case *ast.ValueSpec:
					if len(par.Names) == 2 && len(par.Values) == 1 {
						name = "Recv2"
					}
				}
				c.Replace(simCall(name, n.X))
			}
		case *ast.SelectorExpr:
			if selection := r.info.Selections[n]; selection != nil {
				if fn, ok := selection.Obj().(*types.Func); ok && fn.Pkg() != nil && fn.Pkg().Path() == "reflect" && (fn.Name() == "MapKeys" || fn.Name() == "MapRange" || fn.Name() == "Seq" || fn.Name() == "Seq2") {
					if call, isCall := c.Parent().(*ast.CallExpr); !isCall || call.Fun != n {
						r.rep.Unseamed = append(r.rep.Unseamed, "reflect "+fn.Name()+" used as a value at "+r.where(n.Pos()))
					} else if fn.Name() == "Seq" || fn.Name() == "Seq2" {
						r.rep.Unseamed = append(r.rep.Unseamed, "reflect "+fn.Name()+" iterator at "+r.where(n.Pos()))
					}
				}
			}
		case *ast.CallExpr:
			if id, ok := n.Fun.(*ast.Ident); ok {
				if _, isBuiltin := r.info.Uses[id].(*types.Builtin); isBuiltin {
					switch id.Name {
					case "close":
						if len(n.Args) == 1 {
							r.rep.Modelled = append(r.rep.Modelled, "close of a channel at "+r.where(n.Pos()))
							c.Replace(simCall("Close", n.Args[0]))
						}
					case "make":
						if t := r.info.TypeOf(n); t != nil {
							if _, isChan := t.Underlying().(*types.Chan); isChan {
								c.Replace(simCall("NewChan", n))
							}
						}
					}
				}
				return true
			}
			sel, ok := n.Fun.(*ast.SelectorExpr)
			if !ok {
				return true
			}
			// package-level functions of time and math/rand: clock and randomness seams
			if id, ok := sel.X.(*ast.Ident); ok {
				if pn, ok := r.info.Uses[id].(*types.PkgName); ok {
					switch pn.Imported().Path() {
					case "runtime":
						switch sel.Sel.Name {
						case "NumCPU":
							r.rep.ClockSeams = append(r.rep.ClockSeams, "runtime.NumCPU at "+r.where(n.Pos()))
							c.Replace(simCall("NumProcs", n))
						case "GOMAXPROCS":
							r.rep.ClockSeams = append(r.rep.ClockSeams, "runtime.GOMAXPROCS at "+r.where(n.Pos()))
							if lit, ok := n.Args[0].(*ast.BasicLit); ok && len(n.Args) == 1 && lit.Value == "0" {
								c.Replace(simCall("NumProcs", n))
							} else {
								n.Fun = &ast.SelectorExpr{X: ast.NewIdent("verifsim"), Sel: ast.NewIdent("GOMAXPROCS")}
								r.touched["runtime"] = true
							}
						}
						return true
					case "context":
						switch sel.Sel.Name {
						case "WithTimeout", "WithDeadline":
							r.rep.Unmodelled = append(r.rep.Unmodelled, "context."+sel.Sel.Name+" (real clock) at "+r.where(n.Pos()))
						}
						return true
					case "time":
						switch sel.Sel.Name {
						case "Now", "Since", "Until", "Sleep":
							r.rep.ClockSeams = append(r.rep.ClockSeams, "time."+sel.Sel.Name+" at "+r.where(n.Pos()))
							n.Fun = &ast.SelectorExpr{X: ast.NewIdent("verifsim"), Sel: ast.NewIdent(sel.Sel.Name)}
							r.touched["time"] = true
						case "AfterFunc":
							r.rep.ClockSeams = append(r.rep.ClockSeams, "time.AfterFunc at "+r.where(n.Pos()))
							n.Fun = &ast.SelectorExpr{X: ast.NewIdent("verifsim"), Sel: ast.NewIdent("AfterFunc")}
							r.touched["time"] = true
						case "After", "NewTimer":
							r.rep.ClockSeams = append(r.rep.ClockSeams, "time."+sel.Sel.Name+" at "+r.where(n.Pos()))
							n.Fun = &ast.SelectorExpr{X: ast.NewIdent("verifsim"), Sel: ast.NewIdent(sel.Sel.Name)}
							r.touched["time"] = true
						case "Tick", "NewTicker":
							r.rep.Unmodelled = append(r.rep.Unmodelled, "time."+sel.Sel.Name+" at "+r.where(n.Pos()))
						}
						return true
					case "math/rand":
						switch sel.Sel.Name {
						case "Uint64", "Uint32", "Int63", "Int31", "Int", "Float64", "Float32", "Intn", "Int63n", "Int31n", "Perm", "Shuffle", "Seed":
							r.rep.RandSeams = append(r.rep.RandSeams, "rand."+sel.Sel.Name+" at "+r.where(n.Pos()))
							n.Fun = &ast.SelectorExpr{X: ast.NewIdent("verifsim"), Sel: ast.NewIdent("Rand" + sel.Sel.Name)}
							r.touched["math/rand"] = true
						}
						return true
					}
				}
			}
			selection := r.info.Selections[sel]
			if selection != nil && selection.Kind() == types.MethodExpr && len(n.Args) == 1 {
				// method expression: reflect.Value.MapKeys(x)
				if fn, ok := selection.Obj().(*types.Func); ok && fn.Pkg() != nil && fn.Pkg().Path() == "reflect" && isNamed(selection.Recv(), "reflect", "Value") {
					switch fn.Name() {
					case "MapKeys":
						id := r.newSite(n.Pos(), false, false, "mapkeys")
						r.rep.OrderSeams = append(r.rep.OrderSeams, "MapKeys (method expression) at "+r.where(n.Pos()))
						c.Replace(simCall("MapKeys", n.Args[0], intLit(id)))
					case "MapRange":
						id := r.newSite(n.Pos(), false, false, "maprange")
						r.rep.OrderSeams = append(r.rep.OrderSeams, "MapRange (method expression) at "+r.where(n.Pos()))
						c.Replace(simCall("MapRange", n.Args[0], intLit(id)))
					}
				}
				return true
			}
			if selection == nil || selection.Kind() != types.MethodVal {
				return true
			}
			fn, ok := selection.Obj().(*types.Func)
			if !ok || fn.Pkg() == nil {
				return true
			}
			sig := fn.Type().(*types.Signature)
			if sig.Recv() == nil {
				return true
			}
			recvT := sig.Recv().Type()
			switch {
			case fn.Pkg().Path() == "reflect" && isNamed(recvT, "reflect", "Value") && fn.Name() == "MapKeys" && len(n.Args) == 0:
				id := r.newSite(n.Pos(), false, false, "mapkeys")
				r.rep.OrderSeams = append(r.rep.OrderSeams, "MapKeys at "+r.where(n.Pos()))
				c.Replace(simCall("MapKeys", sel.X, intLit(id)))
			case fn.Pkg().Path() == "reflect" && isNamed(recvT, "reflect", "Value") && fn.Name() == "MapRange" && len(n.Args) == 0:
				id := r.newSite(n.Pos(), false, false, "maprange")
				r.rep.OrderSeams = append(r.rep.OrderSeams, "MapRange at "+r.where(n.Pos()))
				c.Replace(simCall("MapRange", sel.X, intLit(id)))
			case fn.Pkg().Path() == "sync" && (isNamed(recvT, "sync", "Mutex") || isNamed(recvT, "sync", "RWMutex")) && (fn.Name() == "Lock" || fn.Name() == "RLock") && len(n.Args) == 0:
				try := "TryLock"
				if fn.Name() == "RLock" {
					try = "TryRLock"
				}
				r.rep.Modelled = append(r.rep.Modelled, fn.Name()+" at "+r.where(n.Pos()))
				c.Replace(simCall("Lock", &ast.SelectorExpr{X: sel.X, Sel: ast.NewIdent(try)}))
			case fn.Pkg().Path() == "sync" && isNamed(recvT, "sync", "Once") && fn.Name() == "Do" && len(n.Args) == 1:
				xt := r.info.TypeOf(sel.X)
				var recv ast.Expr
				if _, isPtr := xt.(*types.Pointer); isPtr && isNamed(xt, "sync", "Once") {
					recv = sel.X
				} else if isNamed(xt, "sync", "Once") {
					recv = &ast.UnaryExpr{Op: token.AND, X: sel.X}
				}
				if recv == nil {
					r.rep.Unmodelled = append(r.rep.Unmodelled, "embedded sync.Once.Do at "+r.where(n.Pos()))
					return true
				}
				r.rep.Modelled = append(r.rep.Modelled, "Once.Do at "+r.where(n.Pos()))
				c.Replace(simCall("OnceDo", recv, n.Args[0]))
			case fn.Pkg().Path() == "sync" && isNamed(recvT, "sync", "WaitGroup") && (fn.Name() == "Wait" || fn.Name() == "Add" || fn.Name() == "Done"):
				xt := r.info.TypeOf(sel.X)
				var recv ast.Expr
				if _, isPtr := xt.(*types.Pointer); isPtr && isNamed(xt, "sync", "WaitGroup") {
					recv = sel.X
				} else if isNamed(xt, "sync", "WaitGroup") {
					recv = &ast.UnaryExpr{Op: token.AND, X: sel.X}
				}
				if recv == nil {
					// embedded WaitGroup: only Wait can be modelled (without the mirrored counter)
					if fn.Name() == "Wait" {
						r.rep.Modelled = append(r.rep.Modelled, "WaitGroup.Wait (embedded) at "+r.where(n.Pos()))
						c.Replace(simCall("WaitGroupWait", &ast.SelectorExpr{X: sel.X, Sel: ast.NewIdent("Wait")}))
					}
					return true
				}
				if fn.Name() == "Wait" {
					r.rep.Modelled = append(r.rep.Modelled, "WaitGroup.Wait at "+r.where(n.Pos()))
				}
				c.Replace(simCall("WG"+fn.Name(), append([]ast.Expr{recv}, n.Args...)...))
			case fn.Pkg().Path() == "sync" && isNamed(recvT, "sync", "Cond") && (fn.Name() == "Wait" || fn.Name() == "Signal" || fn.Name() == "Broadcast") && len(n.Args) == 0:
				xt := r.info.TypeOf(sel.X)
				var recv ast.Expr
				if _, isPtr := xt.(*types.Pointer); isPtr && isNamed(xt, "sync", "Cond") {
					recv = sel.X
				} else if isNamed(xt, "sync", "Cond") {
					recv = &ast.UnaryExpr{Op: token.AND, X: sel.X}
				}
				if recv == nil {
					if fn.Name() == "Wait" {
						r.rep.Unmodelled = append(r.rep.Unmodelled, "embedded sync.Cond.Wait at "+r.where(n.Pos()))
					}
					return true
				}
				if fn.Name() == "Wait" {
					r.rep.Modelled = append(r.rep.Modelled, "Cond.Wait at "+r.where(n.Pos()))
				}
				c.Replace(simCall("Cond"+fn.Name(), recv))
			}
		}
		return true
	}, nil)
}

// ---- pass B ---------------------------------------------------------------

func (r *rw) yieldStmt(site int) ast.Stmt {
	return &ast.ExprStmt{X: simCall("Yield", intLit(site))}
}

func (r *rw) list(l []ast.Stmt, entry bool, at token.Pos) []ast.Stmt {
	out := make([]ast.Stmt, 0, 2*len(l)+1)
	if len(l) == 0 && entry {
		out = append(out, r.yieldStmt(r.newSite(at, true, false, "")))
		return out
	}
	for i, s := range l {
		store := r.isStore(s)
		site := r.newSite(s.Pos(), entry && i == 0, store, "")
		if r.callsSync(s) {
			r.rep.Sites[site].Sync = true
			r.rep.NSync++
		}
		pre := r.stmt(s)
		if p2, repl := r.chanStmt(s); repl != nil {
			pre = append(pre, p2...)
			s = repl
		} else if ls, ok := s.(*ast.LabeledStmt); ok {
			if p2, repl := r.chanStmt(ls.Stmt); repl != nil {
				pre = append(pre, p2...)
				ls.Stmt = repl
			}
		}
		if g, ok := s.(*ast.GoStmt); ok {
			var repl ast.Stmt
			pre, repl = r.goStmt(g)
			if repl != nil {
				s = repl
			}
		} else if ls, ok := s.(*ast.LabeledStmt); ok {
			if g, ok := ls.Stmt.(*ast.GoStmt); ok {
				var repl ast.Stmt
				pre, repl = r.goStmt(g)
				if repl != nil {
					ls.Stmt = repl
				}
			}
		}
		out = append(out, r.yieldStmt(site))
		out = append(out, pre...)
		out = append(out, s)
	}
	return out
}

func (r *rw) blk(b *ast.BlockStmt) {
	if b != nil {
		b.List = r.list(b.List, false, b.Lbrace)
	}
}

// goStmt makes a goroutine started by the library a task of the simulator.
// `go func(...) {...}(args)`: the parent reserves the task (ChildSpawn) right
// before the go statement and the literal's body gets ChildEnter / deferred
// ChildExit as its very first statements (inserted after all yields have been
// placed, see pending). `go f(args)` with f free of results and at most three
// plain arguments becomes verifsim.GoN(f, args...), which evaluates the
// arguments in the parent exactly as the go statement does.
func (r *rw) goStmt(g *ast.GoStmt) (pre []ast.Stmt, repl ast.Stmt) {
	if fl, ok := g.Call.Fun.(*ast.FuncLit); ok {
		r.tmpN++
		tok := ast.NewIdent(fmt.Sprintf("verifGo%d", r.tmpN))
		pre = []ast.Stmt{&ast.AssignStmt{Lhs: []ast.Expr{tok}, Tok: token.DEFINE, Rhs: []ast.Expr{simCall("ChildSpawn")}}}
		r.pending = append(r.pending, pendingChild{fl, tok.Name})
		r.rep.Modelled = append(r.rep.Modelled, "go func literal at "+r.where(g.Pos()))
		return pre, nil
	}
	if sig, ok := r.info.TypeOf(g.Call.Fun).(*types.Signature); ok && sig.Results().Len() == 0 && !sig.Variadic() && len(g.Call.Args) <= 3 && !g.Call.Ellipsis.IsValid() {
		args := append([]ast.Expr{g.Call.Fun}, g.Call.Args...)
		r.rep.Modelled = append(r.rep.Modelled, "go call at "+r.where(g.Pos()))
		return nil, &ast.ExprStmt{X: simCall(fmt.Sprintf("Go%d", len(g.Call.Args)), args...)}
	}
	r.rep.Unmodelled = append(r.rep.Unmodelled, "go statement at "+r.where(g.Pos()))
	return nil, nil
}

// stmt descends into the statement structure (never into expressions) and
// returns statements that must be placed immediately before s.
func (r *rw) stmt(s ast.Stmt) (pre []ast.Stmt) {
	switch s := s.(type) {
	case *ast.BlockStmt:
		r.blk(s)
	case *ast.IfStmt:
		r.blk(s.Body)
		switch e := s.Else.(type) {
		case *ast.BlockStmt:
			r.blk(e)
		case *ast.IfStmt:
			r.stmt(e)
		}
	case *ast.ForStmt:
		r.blk(s.Body)
	case *ast.RangeStmt:
		pre = r.rangeMap(s)
		r.blk(s.Body)
	case *ast.SwitchStmt:
		r.clauses(s.Body)
	case *ast.TypeSwitchStmt:
		r.clauses(s.Body)
	case *ast.SelectStmt:
		r.clauses(s.Body)
	case *ast.LabeledStmt:
		pre = r.stmt(s.Stmt)
	}
	return pre
}

func (r *rw) clauses(b *ast.BlockStmt) {
	for _, c := range b.List {
		switch c := c.(type) {
		case *ast.CaseClause:
			c.Body = r.list(c.Body, false, c.Colon)
		case *ast.CommClause:
			c.Body = r.list(c.Body, false, c.Colon)
		}
	}
}

func isBlank(e ast.Expr) bool {
	if e == nil {
		return true
	}
	id, ok := e.(*ast.Ident)
	return ok && id.Name == "_"
}

// rangeMap rewrites `for k, v := range m` over a map into a loop over
// verifsim.KeysOf(m) that looks every key up again.
func (r *rw) rangeMap(s *ast.RangeStmt) []ast.Stmt {
	t := r.info.TypeOf(s.X)
	if t == nil {
		return nil
	}
	mt, ok := t.Underlying().(*types.Map)
	if !ok {
		return nil
	}
	if isBlank(s.Key) && isBlank(s.Value) {
		return nil // order cannot be observed through the loop variables
	}
	if b, ok := mt.Key().Underlying().(*types.Basic); ok && b.Info()&(types.IsFloat|types.IsComplex) != 0 {
		r.rep.Unseamed = append(r.rep.Unseamed, "range over float-keyed map at "+r.where(s.Pos()))
		return nil
	}
	if _, isTP := t.(*types.TypeParam); isTP {
		r.rep.Unseamed = append(r.rep.Unseamed, "range over type-parameter map at "+r.where(s.Pos()))
		return nil
	}
	if _, isIface := mt.Key().Underlying().(*types.Interface); isIface {
		// an interface key type satisfies `comparable` only from go1.20 on, and the
		// library's go.mod may say less: the generic seam would not compile
		r.rep.Unseamed = append(r.rep.Unseamed, "range over interface-keyed map at "+r.where(s.Pos()))
		return nil
	}
	r.tmpN++
	site := r.newSite(s.Pos(), false, false, "rangemap")
	r.rep.OrderSeams = append(r.rep.OrderSeams, "range over map at "+r.where(s.Pos()))
	tmp := ast.NewIdent(fmt.Sprintf("verifMap%d", r.tmpN))
	pre := []ast.Stmt{&ast.AssignStmt{Lhs: []ast.Expr{tmp}, Tok: token.DEFINE, Rhs: []ast.Expr{s.X}}}

	var key ast.Expr
	tok := s.Tok
	if isBlank(s.Key) {
		key = ast.NewIdent(fmt.Sprintf("verifKey%d", r.tmpN))
		tok = token.DEFINE
	} else {
		key = s.Key
	}
	var head []ast.Stmt
	// entries deleted during the iteration must not be produced
	head = append(head, &ast.IfStmt{
		Init: &ast.AssignStmt{Lhs: []ast.Expr{ast.NewIdent("_"), ast.NewIdent("verifOK")}, Tok: token.DEFINE,
			Rhs: []ast.Expr{&ast.IndexExpr{X: tmp, Index: key}}},
		Cond: &ast.UnaryExpr{Op: token.NOT, X: ast.NewIdent("verifOK")},
		Body: &ast.BlockStmt{List: []ast.Stmt{&ast.BranchStmt{Tok: token.CONTINUE}}},
	})
	if !isBlank(s.Value) {
		head = append(head, &ast.AssignStmt{Lhs: []ast.Expr{s.Value}, Tok: s.Tok, Rhs: []ast.Expr{&ast.IndexExpr{X: tmp, Index: key}}})
		if s.Tok == token.DEFINE {
			// keep "declared and not used" impossible: the original compiled, so v is used
		}
	}
	s.Key = ast.NewIdent("_")
	s.Value = key
	s.Tok = tok
	s.X = simCall("KeysOf", tmp, intLit(site))
	s.Body.List = append(head, s.Body.List...)
	return pre
}

// callsSync reports whether the statement itself (not nested blocks or function
// literals) calls into package sync or sync/atomic - directly, through a method
// of one of their types, or through the verifsim models that replaced such a
// call. Such statements bound the critical sections and atomic publications of
// the code; the "syncgap" schedule policy preempts right after them.
func (r *rw) callsSync(s ast.Stmt) bool {
	found := false
	var visit func(n ast.Node) bool
	visit = func(n ast.Node) bool {
		if found {
			return false
		}
		switch x := n.(type) {
		case *ast.BlockStmt, *ast.FuncLit:
			return false
		case *ast.CallExpr:
			if sel, ok := x.Fun.(*ast.SelectorExpr); ok {
				if id, ok := sel.X.(*ast.Ident); ok && id.Name == "verifsim" && (sel.Sel.Name == "Lock" || sel.Sel.Name == "OnceDo" || sel.Sel.Name == "WaitGroupWait" || sel.Sel.Name == "WGWait" || sel.Sel.Name == "CondWait" || sel.Sel.Name == "CondSignal" || sel.Sel.Name == "CondBroadcast" || sel.Sel.Name == "WGAdd" || sel.Sel.Name == "WGDone" || sel.Sel.Name == "Send" || sel.Sel.Name == "Recv" || sel.Sel.Name == "Recv2" || sel.Sel.Name == "Close" || sel.Sel.Name == "Select") {
					found = true
					return false
				}
				var obj types.Object
				if selection := r.info.Selections[sel]; selection != nil {
					obj = selection.Obj()
				} else {
					obj = r.info.Uses[sel.Sel]
				}
				if fn, ok := obj.(*types.Func); ok && fn.Pkg() != nil && (fn.Pkg().Path() == "sync" || fn.Pkg().Path() == "sync/atomic") {
					found = true
					return false
				}
			}
		}
		return true
	}
	switch st := s.(type) {
	case *ast.IfStmt:
		if st.Init != nil {
			ast.Inspect(st.Init, visit)
		}
		ast.Inspect(st.Cond, visit)
	case *ast.ForStmt, *ast.RangeStmt, *ast.SwitchStmt, *ast.TypeSwitchStmt, *ast.SelectStmt, *ast.BlockStmt:
		// headers of loops/switches rarely matter; their bodies have their own sites
	case *ast.LabeledStmt:
		return r.callsSync(st.Stmt)
	default:
		ast.Inspect(s, visit)
	}
	return found
}

// isStore is a static guess: does the statement assign through a package-level
// variable, or through a selector/index/dereference rooted in a receiver or
// parameter of the enclosing function? Used only to bias schedules and for
// reach probes, never for verdicts.
func (r *rw) isStore(s ast.Stmt) bool {
	if ls, ok := s.(*ast.LabeledStmt); ok {
		s = ls.Stmt
	}
	var lhs []ast.Expr
	switch s := s.(type) {
	case *ast.AssignStmt:
		if s.Tok == token.DEFINE {
			return false
		}
		lhs = s.Lhs
	case *ast.IncDecStmt:
		lhs = []ast.Expr{s.X}
	default:
		return false
	}
	for _, e := range lhs {
		through := false
		for {
			switch x := e.(type) {
			case *ast.ParenExpr:
				e = x.X
				continue
			case *ast.SelectorExpr:
				e = x.X
				through = true
				continue
			case *ast.IndexExpr:
				e = x.X
				through = true
				continue
			case *ast.StarExpr:
				e = x.X
				through = true
				continue
			}
			break
		}
		id, ok := e.(*ast.Ident)
		if !ok {
			continue
		}
		obj := r.info.Uses[id]
		if obj == nil {
			continue
		}
		if v, ok := obj.(*types.Var); ok {
			if v.Parent() == r.pkg.Types.Scope() {
				return true
			}
			if through && r.owned[obj] {
				return true
			}
		}
	}
	return false
}

// ---- channels ---------------------------------------------------------------

func nestedRecv(comm ast.Stmt) bool {
	found := false
	depth := 0
	ast.Inspect(comm, func(n ast.Node) bool {
		if u, ok := n.(*ast.UnaryExpr); ok && u.Op == token.ARROW {
			depth++
			if depth > 1 {
				found = true
			}
		}
		return true
	})
	if _, isSend := comm.(*ast.SendStmt); isSend && depth > 0 {
		found = true
	}
	return found
}

func isChanType(t types.Type) bool {
	if t == nil {
		return false
	}
	_, ok := t.Underlying().(*types.Chan)
	return ok
}

func allBlank(l []ast.Expr) bool {
	for _, e := range l {
		if !isBlank(e) {
			return false
		}
	}
	return true
}

// chanStmt rewrites the two statement forms that block on channels: range over
// a channel and select. It returns statements to place before s and the
// statement that replaces s (nil: s is not such a statement).
func (r *rw) chanStmt(s ast.Stmt) (pre []ast.Stmt, repl ast.Stmt) {
	switch s := s.(type) {
	case *ast.RangeStmt:
		if !isChanType(r.info.TypeOf(s.X)) {
			return nil, nil
		}
		r.tmpN++
		ch := ast.NewIdent(fmt.Sprintf("verifCh%d", r.tmpN))
		val := ast.NewIdent(fmt.Sprintf("verifVal%d", r.tmpN))
		okv := ast.NewIdent(fmt.Sprintf("verifOk%d", r.tmpN))
		pre = []ast.Stmt{&ast.AssignStmt{Lhs: []ast.Expr{ch}, Tok: token.DEFINE, Rhs: []ast.Expr{s.X}}}
		head := []ast.Stmt{
			&ast.AssignStmt{Lhs: []ast.Expr{val, okv}, Tok: token.DEFINE, Rhs: []ast.Expr{simCall("Recv2", ch)}},
			&ast.IfStmt{Cond: &ast.UnaryExpr{Op: token.NOT, X: okv}, Body: &ast.BlockStmt{List: []ast.Stmt{&ast.BranchStmt{Tok: token.BREAK}}}},
		}
		if isBlank(s.Key) {
			head = append(head, &ast.AssignStmt{Lhs: []ast.Expr{ast.NewIdent("_")}, Tok: token.ASSIGN, Rhs: []ast.Expr{val}})
		} else {
			head = append(head, &ast.AssignStmt{Lhs: []ast.Expr{s.Key}, Tok: s.Tok, Rhs: []ast.Expr{val}})
		}
		s.Body.List = append(head, s.Body.List...)
		r.rep.Modelled = append(r.rep.Modelled, "range over channel at "+r.where(s.Pos()))
		return pre, &ast.ForStmt{For: s.For, Body: s.Body}
	case *ast.SelectStmt:
		r.tmpN++
		n := r.tmpN
		sel := ast.NewIdent(fmt.Sprintf("verifSel%d", n))
		hasDefault := "false"
		var cases []ast.Expr
		var clauses []ast.Stmt
		idx := 0
		for _, cl := range s.Body.List {
			cc, ok := cl.(*ast.CommClause)
			if !ok {
				continue
			}
			if cc.Comm == nil {
				hasDefault = "true"
				clauses = append(clauses, &ast.CaseClause{Body: cc.Body}) // default: (index -1)
				continue
			}
			ch := ast.NewIdent(fmt.Sprintf("verifSel%dc%d", n, idx))
			var bind ast.Stmt
			switch cm := cc.Comm.(type) {
			case *ast.SendStmt:
				pre = append(pre, &ast.AssignStmt{Lhs: []ast.Expr{ch}, Tok: token.DEFINE, Rhs: []ast.Expr{cm.Chan}})
				cases = append(cases, simCall("SendCase", ch, cm.Value))
			case *ast.ExprStmt:
				u, _ := unparen(cm.X).(*ast.UnaryExpr)
				if u == nil {
					return nil, nil
				}
				pre = append(pre, &ast.AssignStmt{Lhs: []ast.Expr{ch}, Tok: token.DEFINE, Rhs: []ast.Expr{u.X}})
				cases = append(cases, simCall("RecvCase", ch))
			case *ast.AssignStmt:
				if len(cm.Rhs) != 1 {
					return nil, nil
				}
				u, _ := unparen(cm.Rhs[0]).(*ast.UnaryExpr)
				if u == nil {
					return nil, nil
				}
				pre = append(pre, &ast.AssignStmt{Lhs: []ast.Expr{ch}, Tok: token.DEFINE, Rhs: []ast.Expr{u.X}})
				cases = append(cases, simCall("RecvCase", ch))
				tok := cm.Tok
				if allBlank(cm.Lhs) {
					tok = token.ASSIGN
				}
				fn := "SelRecv"
				if len(cm.Lhs) == 2 {
					fn = "SelRecv2"
				}
				bind = &ast.AssignStmt{Lhs: cm.Lhs, Tok: tok, Rhs: []ast.Expr{simCall(fn, ch, sel)}}
			default:
				return nil, nil
			}
			// keep the channel temporaries "used" even if a clause needs none of them later
			body := cc.Body
			if bind != nil {
				body = append([]ast.Stmt{bind}, body...)
			}
			clauses = append(clauses, &ast.CaseClause{List: []ast.Expr{intLit(idx)}, Body: body})
			idx++
		}
		if hasDefault == "false" {
			// a select whose clauses all end in a terminating statement is itself
			// terminating; the switch that replaces it must be too
			clauses = append(clauses, &ast.CaseClause{Body: []ast.Stmt{&ast.ExprStmt{X: &ast.CallExpr{Fun: ast.NewIdent("panic"),
				Args: []ast.Expr{&ast.BasicLit{Kind: token.STRING, Value: `"verifsim: select chose no clause"`}}}}}})
		}
		args := append([]ast.Expr{ast.NewIdent(hasDefault)}, cases...)
		pre = append(pre, &ast.AssignStmt{Lhs: []ast.Expr{sel}, Tok: token.DEFINE, Rhs: []ast.Expr{simCall("Select", args...)}})
		r.rep.Modelled = append(r.rep.Modelled, "select at "+r.where(s.Pos()))
		return pre, &ast.SwitchStmt{Switch: s.Select, Tag: &ast.SelectorExpr{X: sel, Sel: ast.NewIdent("Index")}, Body: &ast.BlockStmt{List: clauses}}
	}
	return nil, nil
}

func unparen(e ast.Expr) ast.Expr {
	for {
		p, ok := e.(*ast.ParenExpr)
		if !ok {
			return e
		}
		e = p.X
	}
}
