#!/bin/bash
# Instrumenter stress test: a file with every statement form the instrumenter
# rewrites (incl. goroutines, WaitGroup, channels, select, timers) is added to a
# scratch copy of /repo; the copy must build, its tests must pass with the
# simulator off, the channel/goroutine models must give the right results under
# seeded schedules with the same interleaving hash at every GOMAXPROCS and under
# the race detector, and a C12 check on the copy must stay silent.
set -e
export GOFLAGS=-mod=mod GOPROXY=off GOSUMDB=off GOTOOLCHAIN=local
d=$(mktemp -d /tmp/inststress-XXXX); cp -r /repo/. $d/; rm -rf $d/.git
cp /verif/tools/inststress/zz_syntax.go.txt $d/zz_syntax.go
cp /verif/tools/inststress/zz_syntax_test.go.txt $d/zz_syntax_test.go
(cd $d && go build ./... && go test -vet=off -count=1 -run "TestSyntaxKitchenSink|TestSyntaxChannels" . | tail -1)
s=$(VERIF_REPO=$d /verif/bin/vcheck prepare --keep | grep -o "scratch=[^ ]*" | cut -d= -f2)
cp /verif/tools/inststress/zz_sched_test.go.txt $s/repo/zz_sched_test.go
h=""
for p in 1 4 16; do
  x=$(cd $s/repo && GOMAXPROCS=$p go test -v -tags verif -vet=off -count=1 -run TestSchedChannels . 2>&1 | grep -E "ALLHASH|FAIL|ABORT|DATA RACE" | head -3)
  echo "GOMAXPROCS=$p $x"; h="$h|$x"
done
x=$(cd $s/repo && GOMAXPROCS=1 go test -race -v -tags verif -vet=off -count=1 -run TestSchedChannels . 2>&1 | grep -E "ALLHASH|FAIL|ABORT|DATA RACE" | head -3)
echo "race $x"; h="$h|$x"
n=$(echo "$h" | tr '|' '\n' | grep -v '^$' | sort -u | wc -l)
[ "$n" = 1 ] && echo "scheduled channel model: deterministic, results right" || { echo "scheduled channel model: MISMATCH"; rm -rf $s $d; exit 1; }
rm -rf $s
mkdir -p $d/.ev $d/.rp
VERIF_REPO=$d VERIF_EVIDENCE_DIR=$d/.ev VERIF_REPLAY_DIR=$d/.rp /verif/bin/vcheck check C12 | tail -1
rm -rf $d
