#!/bin/bash
set -e
export GOFLAGS=-mod=mod GOPROXY=off GOSUMDB=off GOTOOLCHAIN=local
d=$(mktemp -d /tmp/inststress-XXXX); cp -r /repo/. $d/; rm -rf $d/.git
cp /verif/tools/inststress/zz_syntax.go.txt $d/zz_syntax.go
cp /verif/tools/inststress/zz_syntax_test.go.txt $d/zz_syntax_test.go
(cd $d && go build ./... && go test -vet=off -count=1 -run TestSyntaxKitchenSink . | tail -1)
VERIF_REPO=$d /verif/bin/vcheck prepare | tail -3
mkdir -p $d/.ev $d/.rp
VERIF_REPO=$d VERIF_EVIDENCE_DIR=$d/.ev VERIF_REPLAY_DIR=$d/.rp /verif/bin/vcheck check C12 | tail -1
rm -rf $d
