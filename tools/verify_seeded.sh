#!/bin/bash
# usage: verify_seeded.sh <worktree-or-seeded-dir> <id>   (dir contains .mutant/ or patch.diff+demo_test.go)
# Confirms in a scratch copy of /repo: patch applies, builds, suite passes 3x, demo fails with and passes without.
set -u
src=$1; id=$2
export GOFLAGS=-mod=mod GOPROXY=off GOSUMDB=off GOTOOLCHAIN=local
m=$src; [ -d $src/.mutant ] && m=$src/.mutant
d=$(mktemp -d /tmp/vs-$id-XXXX)
cp -r /repo/. $d/ && rm -rf $d/.git
cd $d
names=$(grep -ho '^func Test[A-Za-z0-9_]*' $m/demo_test.go | sed 's/func //' | paste -sd'|')
race=""; grep -q "C12" <<<"$id" && race="-race"
cp $m/demo_test.go ./zz_demo_test.go
go test -vet=off -count=1 $race -run "^($names)\$" . > /tmp/vs-$id.without.log 2>&1; w=$?
patch -p1 -s < $m/patch.diff || { echo "$id: PATCH-FAILED"; cd /; rm -rf $d; exit 3; }
go build ./... || { echo "$id: BUILD-FAILED"; cd /; rm -rf $d; exit 3; }
go test -vet=off -count=1 $race -run "^($names)\$" . > /tmp/vs-$id.with.log 2>&1; x=$?
rm zz_demo_test.go
s=0; for i in 1 2 3; do go test -vet=off -count=1 ./... > /tmp/vs-$id.suite.log 2>&1 || s=1; done
echo "$id: demo-without-patch exit=$w (want 0)  demo-with-patch exit=$x (want !=0)  suite-with-patch fail=$s (want 0)  tests=$names"
cd /; rm -rf $d
