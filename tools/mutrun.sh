#!/bin/bash
# usage: mutrun.sh <name> <python-edit-file|patch.diff> <check-id> [tier]
# Copies /repo to a scratch dir, applies the edit, runs the repository suite
# there, runs one check against the copy (evidence and replays go to the
# scratch dir, never to /verif), prints the verdict and removes the copy.
set -u
name=$1; edit=$2; id=$3; tier=${4:-quick}
export GOFLAGS=-mod=mod GOPROXY=off GOSUMDB=off GOTOOLCHAIN=local
d=$(mktemp -d /tmp/mut-$name-XXXX)
cp -r /repo/. $d/ && rm -rf $d/.git
case "$edit" in
  *.diff|*.patch) (cd $d && patch -p1 -s < "$edit") || { echo "PATCH-FAILED"; rm -rf $d; exit 3; } ;;
  *.py) (cd $d && python3 "$edit") || { echo "EDIT-FAILED"; rm -rf $d; exit 3; } ;;
esac
(cd $d && go build ./... && go test -vet=off -count=1 ./... >/tmp/mut-$name.test.log 2>&1) && echo "suite: PASS" || { echo "suite: FAIL (see /tmp/mut-$name.test.log)"; }
mkdir -p $d/.ev $d/.rp
VERIF_REPO=$d VERIF_EVIDENCE_DIR=$d/.ev VERIF_REPLAY_DIR=$d/.rp /verif/bin/vcheck check $id --tier $tier > /tmp/mut-$name.$id.log 2>&1
code=$?
echo "mutant=$name check=$id exit=$code"
grep -E "^(VIOLATION|KNOWN-FINDING|  kind=|INFRA)" /tmp/mut-$name.$id.log | head -8
grep -A1 "  kind=" /tmp/mut-$name.$id.log | grep -v "kind=" | cut -c1-400 | head -4
python3 - "$d/.ev/$id.json" <<'PY' 2>/dev/null
import json,sys
try:
    c=json.load(open(sys.argv[1]))["coverage"]; f=c.get("fault_kinds_fired",{})
    print("  reach: library goroutines=%s channel ops=%s env runs=%s" % (f.get("goroutines_started_by_the_library","-"), f.get("channel_operations_inside_the_library","-"), f.get("clock_jump_or_random_seed_runs","-")))
    seen=c.get("violation_keys_seen") or {}
    print("  findings: %d occurrences over %d keys (1-2 occurrences = found by luck)" % (sum(seen.values()), len(seen)))
except Exception as e: pass
PY
rm -rf $d
exit $code
