# the hook is disabled for the rest of the evaluator's life once it has failed
s=open('bexpr.go').read()
s=s.replace('''	res, err := 0''','')
s=s.replace('''	return evaluate(eval.ast, datum, opts...)''','''	res, err := evaluate(eval.ast, datum, opts...)
	if err != nil && strings.Contains(err.Error(), "ValueTransformationHook") {
		eval.valueTransformationHook = nil
	}
	return res, err''')
s=s.replace('''import (
	"regexp"
''','''import (
	"regexp"
	"strings"
''')
open('bexpr.go','w').write(s)
