exec(open('/tmp/muts/m12revert.py').read())
s=open('evaluate.go').read()
s=s.replace('''	var re *regexp.Regexp
	var ok bool
	if expression.Value.Converted != nil {''','''	reMu.Lock()
	defer reMu.Unlock()
	var re *regexp.Regexp
	var ok bool
	if expression.Value.Converted != nil {''')
s=s.replace('var byteSliceTyp reflect.Type','var reMu sync.Mutex\n\nvar byteSliceTyp reflect.Type')
s=s.replace('	"strings"\n','	"strings"\n	"sync"\n',1)
open('evaluate.go','w').write(s)
