# sync.Once per evaluator guarding a lazily built table
s=open('bexpr.go').read()
s=s.replace('''	expression              string
}''','''	expression              string
	once                    sync.Once
	ready                   bool
}''')
s=s.replace('''import (
	"regexp"
''','''import (
	"regexp"
	"sync"
''')
s=s.replace('''	precompileRegexps(ast.(grammar.Expression))
''','')
s=s.replace('''func (eval *Evaluator) Evaluate(datum interface{}) (bool, error) {
''','''func (eval *Evaluator) Evaluate(datum interface{}) (bool, error) {
	eval.once.Do(func() {
		precompileRegexps(eval.ast)
		eval.ready = true
	})
''')
open('bexpr.go','w').write(s)
