s=open('bexpr.go').read()
assert 'parsedOpts.withMaxExpressions != 0 {' in s
s=s.replace('parsedOpts.withMaxExpressions != 0 {','parsedOpts.withMaxExpressions != 0 && len(expression) < 0 {')
open('bexpr.go','w').write(s)
