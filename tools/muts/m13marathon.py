# after 1000 calls an Evaluator starts answering from a one-entry memo keyed by the datum's type only
import re
s=open('bexpr.go').read()
s=s.replace('''	expression              string
''','''	expression              string
	calls                   int
	memoType                string
	memoRes                 bool
''',1)
old='func (eval *Evaluator) Evaluate(datum interface{}) (bool, error) {\n'
assert old in s
s=s.replace(old, old+'''	eval.calls++
	if eval.calls > 1000 {
		if t := fmt.Sprintf("%T", datum); t == eval.memoType {
			return eval.memoRes, nil
		}
	}
''',1)
# record memo at the end: wrap the final return
i=s.index(old)
j=s.index('\n}\n', i)
body=s[i:j]
k=body.rindex('return ')
ret=body[k:]
body=body[:k]+'res, err := '+ret[len('return '):]+'\n\tif err == nil {\n\t\teval.memoType, eval.memoRes = fmt.Sprintf("%T", datum), res\n\t}\n\treturn res, err'
s=s[:i]+body+s[j:]
if '"fmt"' not in s:
    s=s.replace('import (','import (\n\t"fmt"',1)
open('bexpr.go','w').write(s)
import subprocess; subprocess.run(['gofmt','-w','bexpr.go'],check=True)
