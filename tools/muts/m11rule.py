s=open('grammar/grammar.go').read()
s=s.replace('''	p.ExprCnt++
	if p.ExprCnt > p.maxExprCnt {
		panic(errMaxExprCnt)
	}
''','''	p.ExprCnt++
''')
s=s.replace('''	p.rstack = append(p.rstack, rule)
	p.pushV()''','''	if p.ExprCnt > p.maxExprCnt {
		panic(errMaxExprCnt)
	}
	p.rstack = append(p.rstack, rule)
	p.pushV()''')
open('grammar/grammar.go','w').write(s)
