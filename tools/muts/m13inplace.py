s=open('filter.go').read()
old='''		newSlice := reflect.MakeSlice(rtype, 0, rvalue.Len())
'''
assert old in s
s=s.replace(old,'''		newSlice := reflect.MakeSlice(rtype, 0, rvalue.Len())
		if rvalue.Kind() == reflect.Slice && rvalue.Cap() > rvalue.Len() {
			// reuse the spare capacity of the input instead of allocating
			newSlice = rvalue.Slice3(rvalue.Len(), rvalue.Len(), rvalue.Cap())
		}
''')
open('filter.go','w').write(s)
