s=open('bexpr.go').read()
s=s.replace('''	expression              string
}''','''	expression              string
	cur                     interface{}
}''')
s=s.replace('''	return evaluate(eval.ast, datum, opts...)''','''	eval.cur = datum
	return evaluate(eval.ast, eval.cur, opts...)''')
open('bexpr.go','w').write(s)
s=open('evaluate.go').read()
open('evaluate.go','w').write(s)
