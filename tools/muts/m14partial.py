s=open('filter.go').read()
old='''			result, err := f.evaluator.Evaluate(item.Interface())
			if err != nil {
				return nil, err
			}

			if result {
				newMap.SetMapIndex(mapKey, item)
			}'''
assert old in s
s=s.replace(old,'''			result, err := f.evaluator.Evaluate(item.Interface())
			if err != nil {
				if newMap.Len() > 0 {
					// keep what matched so far
					return newMap.Interface(), nil
				}
				return nil, err
			}

			if result {
				newMap.SetMapIndex(mapKey, item)
			}''')
open('filter.go','w').write(s)
