s=open('filter.go').read()
old='for _, mapKey := range rvalue.MapKeys() {'
assert old in s
s=s.replace(old,'for _, mapKey := range reflect.Value.MapKeys(rvalue) {')
open('filter.go','w').write(s)
