import sys
p='filter.go'
s=open(p).read()
s=s.replace('''	evaluator *Evaluator
}''','''	evaluator *Evaluator
	// result buffer of the previous Execute, reused when the type matches
	buf reflect.Value
}''',1)
old='''		newSlice := reflect.MakeSlice(rtype, 0, rvalue.Len())
'''
new='''		var newSlice reflect.Value
		if f.buf.IsValid() && f.buf.Type() == rtype && f.buf.Cap() >= rvalue.Len() {
			newSlice = f.buf.Slice(0, 0)
		} else {
			newSlice = reflect.MakeSlice(rtype, 0, rvalue.Len())
			f.buf = newSlice
		}
'''
assert old in s
s=s.replace(old,new,1)
open(p,'w').write(s)
