s=open('evaluate.go').read()
old='''			return false, fmt.Errorf("Failed to compile regular expression %q: %v", expression.Value.Raw, err)
		}
	}
'''
assert old in s
s=s.replace(old,'''			return false, fmt.Errorf("Failed to compile regular expression %q: %v", expression.Value.Raw, err)
		}
		expression.Value.Converted = re
	}
''')
open('evaluate.go','w').write(s)
s=open('bexpr.go').read()
s=s.replace('	precompileRegexps(ast.(grammar.Expression))\n','')
open('bexpr.go','w').write(s)
