s=open('evaluate.go').read()
old='		sort.Slice(keys, func(i, j int) bool { return keys[i].String() < keys[j].String() })\n'
assert old in s
s=s.replace(old,'')
s=s.replace('	"sort"\n','')
open('evaluate.go','w').write(s)
