s=open('evaluate.go').read()
s=s.replace('''	"strings"

	"github.com/hashicorp/go-bexpr/grammar"''','''	"strings"
	"time"

	"github.com/hashicorp/go-bexpr/grammar"''')
old='''	switch v.Kind() {
	case reflect.Slice, reflect.Array, reflect.Map:
		for i := 0; i < v.Len(); i++ {'''
assert old in s
s=s.replace(old,'''	started := time.Now()
	switch v.Kind() {
	case reflect.Slice, reflect.Array, reflect.Map:
		for i := 0; i < v.Len(); i++ {
			if time.Since(started) > 50*time.Millisecond {
				return false, errors.New("evaluation of the collection took too long")
			}''')
open('evaluate.go','w').write(s)
