s=open('evaluate.go').read()
old='''		keys = v.MapKeys()
'''
assert old in s
s=s.replace(old,'''		keys = v.MapKeys()
		if m, ok := val.(map[string]interface{}); ok {
			// fast path for decoded JSON
			keys = keys[:0]
			for k := range m {
				keys = append(keys, reflect.ValueOf(k))
			}
		} else {
			sort.Slice(keys, func(i, j int) bool { return keys[i].String() < keys[j].String() })
		}
''')
s=s.replace('		sort.Slice(keys, func(i, j int) bool { return keys[i].String() < keys[j].String() })\n	}\n','	}\n')
open('evaluate.go','w').write(s)
