# evaluator remembers its last (datum pointer -> result) pair
s=open('bexpr.go').read()
s=s.replace('''	expression              string
}''','''	expression              string
	lastDatum               interface{}
	lastResult              bool
	lastErr                 error
	hasLast                 bool
}''')
s=s.replace('''func (eval *Evaluator) Evaluate(datum interface{}) (bool, error) {
''','''func (eval *Evaluator) Evaluate(datum interface{}) (bool, error) {
	if eval.hasLast && isPtrLike(datum) && eval.lastDatum == datum {
		return eval.lastResult, eval.lastErr
	}
	res, err := eval.evaluateUncached(datum)
	if isPtrLike(datum) {
		eval.lastDatum, eval.lastResult, eval.lastErr, eval.hasLast = datum, res, err, true
	}
	return res, err
}

func isPtrLike(d interface{}) bool {
	if d == nil {
		return false
	}
	return reflect.TypeOf(d).Kind() == reflect.Ptr
}

func (eval *Evaluator) evaluateUncached(datum interface{}) (bool, error) {
''')
s=s.replace('''import (
	"regexp"
''','''import (
	"reflect"
	"regexp"
''')
open('bexpr.go','w').write(s)
