s=open('grammar/grammar.go').read()
assert 'if p.ExprCnt > p.maxExprCnt {' in s
s=s.replace('if p.ExprCnt > p.maxExprCnt {','if p.ExprCnt >= p.maxExprCnt {')
open('grammar/grammar.go','w').write(s)
