s=open('bexpr.go').read()
s=s.replace('''	expression              string
}''','''	expression              string
	opts                    []Option
}''')
s=s.replace('''	return eval, nil
}''','''	eval.opts = make([]Option, 0, 8)
	eval.opts = append(eval.opts, WithTagName(eval.tagName), WithHookFn(eval.valueTransformationHook))
	return eval, nil
}''',1)
old=s[s.index('	opts := []Option{\n		WithTagName(eval.tagName),'):s.index('	return evaluate(eval.ast, datum, opts...)')]
s=s.replace(old,'''	opts := eval.opts
	if eval.unknownVal != nil {
		opts = append(opts, WithUnknownValue(*eval.unknownVal))
	}

''')
open('bexpr.go','w').write(s)
s=open('evaluate.go').read()
# quantifiers append to the caller's slice instead of a copy: aliasing through spare capacity
s=s.replace('innerOpt := append([]Option(nil), opt...)','innerOpt := opt')
open('evaluate.go','w').write(s)
