s=open('grammar/grammar.go').read()
s=s.replace('''	if pt.offset == p.pt.offset {
		return
	}
	p.pt = pt''','''	if pt.offset == p.pt.offset {
		return
	}
	if p.pt.offset-pt.offset > 6 {
		p.ExprCnt -= 3
	}
	p.pt = pt''')
open('grammar/grammar.go','w').write(s)
