s=open('bexpr.go').read()
s=s.replace('''func CreateEvaluator(expression string, opts ...Option) (*Evaluator, error) {
	parsedOpts := getOpts(opts...)''','''var astCache = map[string]grammar.Expression{}

func CreateEvaluator(expression string, opts ...Option) (*Evaluator, error) {
	parsedOpts := getOpts(opts...)
	if cached, ok := astCache[expression]; ok && parsedOpts.withMaxExpressions == 0 {
		return &Evaluator{ast: cached, tagName: parsedOpts.withTagName, valueTransformationHook: parsedOpts.withHookFn, unknownVal: parsedOpts.withUnknown, expression: expression}, nil
	}''')
s=s.replace('''	eval := &Evaluator{
		ast:                     ast.(grammar.Expression),''','''	if parsedOpts.withMaxExpressions == 0 {
		astCache[expression] = ast.(grammar.Expression)
	}
	eval := &Evaluator{
		ast:                     ast.(grammar.Expression),''')
open('bexpr.go','w').write(s)
