# sorts by key length only: ties keep the runtime's order
s=open('evaluate.go').read()
old='keys[i].String() < keys[j].String()'
assert old in s
s=s.replace(old,'len(keys[i].String()) < len(keys[j].String())')
open('evaluate.go','w').write(s)
