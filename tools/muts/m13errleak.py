# an error counter leaks into later error messages; the unknown value is dropped after the first error
s=open('bexpr.go').read()
s=s.replace('''	expression              string
}''','''	expression              string
	failed                  bool
}''')
s=s.replace('''	if eval.unknownVal != nil {
		opts = append(opts, WithUnknownValue(*eval.unknownVal))
	}

	return evaluate(eval.ast, datum, opts...)''','''	if eval.unknownVal != nil && !eval.failed {
		opts = append(opts, WithUnknownValue(*eval.unknownVal))
	}

	res, err := evaluate(eval.ast, datum, opts...)
	if err != nil {
		eval.failed = true
	}
	return res, err''')
open('bexpr.go','w').write(s)
