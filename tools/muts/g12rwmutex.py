exec(open('/tmp/muts/m12revert.py').read())
s=open('evaluate.go').read()
old=s[s.index('	var re *regexp.Regexp\n	var ok bool'):s.index('	return re.Match(value.Convert(byteSliceTyp)')]
s=s.replace(old,'''	var re *regexp.Regexp
	reMu.RLock()
	if expression.Value.Converted != nil {
		re, _ = expression.Value.Converted.(*regexp.Regexp)
	}
	reMu.RUnlock()
	if re == nil {
		reMu.Lock()
		if expression.Value.Converted != nil {
			re, _ = expression.Value.Converted.(*regexp.Regexp)
		}
		if re == nil {
			var err error
			re, err = regexp.Compile(expression.Value.Raw)
			if err != nil {
				reMu.Unlock()
				return false, fmt.Errorf("Failed to compile regular expression %q: %v", expression.Value.Raw, err)
			}
			expression.Value.Converted = re
		}
		reMu.Unlock()
	}

''')
s=s.replace('var byteSliceTyp reflect.Type','var reMu sync.RWMutex\n\nvar byteSliceTyp reflect.Type')
s=s.replace('	"strings"\n','	"strings"\n	"sync"\n',1)
open('evaluate.go','w').write(s)
