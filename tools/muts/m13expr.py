s=open('bexpr.go').read()
s=s.replace('''		expression:              expression,
	}''','''		expression:              strings.TrimSpace(expression),
	}''')
s=s.replace('''import (
	"regexp"
''','''import (
	"regexp"
	"strings"
''')
open('bexpr.go','w').write(s)
