# bindings kept in a per-evaluator scratch stack instead of per-call option copies
s=open('bexpr.go').read()
s=s.replace('''	expression              string
}''','''	expression              string
	locals                  []localVariable
}''')
s=s.replace('''	return evaluate(eval.ast, datum, opts...)''','''	opts = append(opts, withEval(eval))
	return evaluate(eval.ast, datum, opts...)''')
open('bexpr.go','w').write(s)
s=open('options.go').read()
s=s.replace('''	withLocalVariables []localVariable
}''','''	withLocalVariables []localVariable
	withEval           *Evaluator
}

func withEval(e *Evaluator) Option {
	return func(o *options) {
		o.withEval = e
	}
}''')
open('options.go','w').write(s)
s=open('evaluate.go').read()
old='''	opts := getOpts(opt...)
	if len(path) != 0 && len(opts.withLocalVariables) > 0 {'''
assert old in s
s=s.replace(old,'''	opts := getOpts(opt...)
	if opts.withEval != nil {
		opts.withLocalVariables = opts.withEval.locals
	}
	if len(path) != 0 && len(opts.withLocalVariables) > 0 {''')
old='''			result, err := evaluate(expression.Inner, datum, innerOpt...)
			if err != nil {
				return false, err
			}'''
assert old in s
s=s.replace(old,'''			ev := getOpts(opt...).withEval
			mark := 0
			if ev != nil {
				mark = len(ev.locals)
				ev.locals = append(ev.locals, getOpts(innerOpt...).withLocalVariables[len(getOpts(opt...).withLocalVariables):]...)
			}
			result, err := evaluate(expression.Inner, datum, innerOpt...)
			if ev != nil {
				ev.locals = ev.locals[:mark]
			}
			if err != nil {
				return false, err
			}''')
open('evaluate.go','w').write(s)
