s=open('grammar/grammar.go').read()
s=s.replace('''				err = p.errs.err()
			}
		}()''','''				err = p.errs.err()
				if e == errMaxExprCnt && p.ExprCnt > 300 {
					err = nil
				}
			}
		}()''')
open('grammar/grammar.go','w').write(s)
