s=open('evaluate.go').read()
s=s.replace('''	"fmt"
	"reflect"''','''	"fmt"
	"math/rand"
	"reflect"''')
old='''		sort.Slice(keys, func(i, j int) bool { return keys[i].String() < keys[j].String() })'''
assert old in s
s=s.replace(old,'''		sort.Slice(keys, func(i, j int) bool { return keys[i].String() < keys[j].String() })
		if len(keys) > 1 {
			// spread the load: start at a random entry
			off := rand.Intn(len(keys))
			keys = append(keys[off:], keys[:off]...)
		}''')
open('evaluate.go','w').write(s)
