# quantifier: an error is only returned if it happens on the first element visited by a second, unsorted pass
s=open('evaluate.go').read()
old='''			result, err := evaluate(expression.Inner, datum, innerOpt...)
			if err != nil {
				return false, err
			}'''
assert old in s
s=s.replace(old,'''			result, err := evaluate(expression.Inner, datum, innerOpt...)
			if err != nil {
				if v.Kind() == reflect.Map && v.Len() > 3 {
					// large maps: tolerate an erroring entry unless it is the one the runtime lists first
					if v.MapKeys()[0].String() != keys[i].String() {
						continue
					}
				}
				return false, err
			}''')
open('evaluate.go','w').write(s)
