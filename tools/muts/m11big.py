s=open('bexpr.go').read()
s=s.replace('parsedOpts.withMaxExpressions != 0 {','parsedOpts.withMaxExpressions > 4096 {')
open('bexpr.go','w').write(s)
