s=open('evaluate.go').read()
old='keys[i].String() < keys[j].String()'
assert old in s
s=s.replace(old,'keys[i].String() > keys[j].String()')
open('evaluate.go','w').write(s)
