# scratch field read deeper in: the collection evaluation re-reads the datum from the evaluator
s=open('bexpr.go').read()
s=s.replace('''	expression              string
}''','''	expression              string
	cur                     interface{}
}''')
s=s.replace('''	return evaluate(eval.ast, datum, opts...)''','''	eval.cur = datum
	opts = append(opts, withEval(eval))
	return evaluate(eval.ast, datum, opts...)''')
open('bexpr.go','w').write(s)
s=open('options.go').read()
s=s.replace('''	withLocalVariables []localVariable
}''','''	withLocalVariables []localVariable
	withEval           *Evaluator
}

func withEval(e *Evaluator) Option {
	return func(o *options) {
		o.withEval = e
	}
}''')
open('options.go','w').write(s)
s=open('evaluate.go').read()
old='''			result, err := evaluate(expression.Inner, datum, innerOpt...)'''
assert old in s
s=s.replace(old,'''			if e := getOpts(opt...).withEval; e != nil {
				datum = e.cur
			}
			result, err := evaluate(expression.Inner, datum, innerOpt...)''')
open('evaluate.go','w').write(s)
