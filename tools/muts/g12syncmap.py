exec(open('/tmp/muts/m12revert.py').read())
s=open('evaluate.go').read()
old=s[s.index('	var re *regexp.Regexp\n	var ok bool'):s.index('	return re.Match(value.Convert(byteSliceTyp)')]
s=s.replace(old,'''	var re *regexp.Regexp
	if c, ok := reCache.Load(expression.Value.Raw); ok {
		re = c.(*regexp.Regexp)
	} else {
		var err error
		re, err = regexp.Compile(expression.Value.Raw)
		if err != nil {
			return false, fmt.Errorf("Failed to compile regular expression %q: %v", expression.Value.Raw, err)
		}
		reCache.Store(expression.Value.Raw, re)
	}

''')
s=s.replace('var byteSliceTyp reflect.Type','var reCache sync.Map\n\nvar byteSliceTyp reflect.Type')
s=s.replace('	"strings"\n','	"strings"\n	"sync"\n',1)
open('evaluate.go','w').write(s)
