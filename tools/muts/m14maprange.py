s=open('evaluate.go').read()
old='''		keys = v.MapKeys()
'''
assert old in s
s=s.replace(old,'''		for it := v.MapRange(); it.Next(); {
			keys = append(keys, it.Key())
		}
''')
s=s.replace('		sort.Slice(keys, func(i, j int) bool { return keys[i].String() < keys[j].String() })\n','		if len(keys) > 8 {\n			sort.Slice(keys, func(i, j int) bool { return keys[i].String() < keys[j].String() })\n		}\n')
open('evaluate.go','w').write(s)
