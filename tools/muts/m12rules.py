s=open('grammar/grammar.go').read()
old='''func (p *parser) buildRulesTable(g *grammar) {
	p.rules = make(map[string]*rule, len(g.rules))
	for _, r := range g.rules {
		p.rules[r.name] = r
	}
}'''
assert old in s
s=s.replace(old,'''var sharedRules map[string]*rule

func (p *parser) buildRulesTable(g *grammar) {
	if sharedRules == nil {
		sharedRules = make(map[string]*rule, len(g.rules))
		for _, r := range g.rules {
			sharedRules[r.name] = r
		}
	}
	p.rules = sharedRules
}''')
open('grammar/grammar.go','w').write(s)
