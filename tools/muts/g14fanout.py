# good refactoring: quantifier bodies evaluated by a worker pool (channels, WaitGroup),
# results combined in element order so that the outcome equals the sequential one
s=open('evaluate.go').read()
old_start=s.index('	switch v.Kind() {\n	case reflect.Slice, reflect.Array, reflect.Map:\n		for i := 0; i < v.Len(); i++ {')
old_end=s.index('		return expression.Op == grammar.CollectionOpAll, nil\n\n	default:\n		return false, fmt.Errorf(`%s is not a list or a map`')
body=s[old_start:old_end]
# turn the loop body into a closure
inner=body[body.index('			innerOpt := append([]Option(nil), opt...)'):body.rindex('			result, err := evaluate(expression.Inner, datum, innerOpt...)')]
new='''	switch v.Kind() {
	case reflect.Slice, reflect.Array, reflect.Map:
		n := v.Len()
		if n > 0 && expression.NameBinding.Mode == grammar.CollectionBindIndexAndValue &&
			expression.NameBinding.Index == expression.NameBinding.Value {
			return false, fmt.Errorf("%q cannot be used as a placeholder for both the index and the value", expression.NameBinding.Index)
		}
		evalElem := func(i int) (bool, error) {
'''+inner.replace('				return false, fmt.Errorf("%q cannot be used as a placeholder for both the index and the value", expression.NameBinding.Index)','				return false, nil')+'''			return evaluate(expression.Inner, datum, innerOpt...)
		}
		type elemResult struct {
			ok  bool
			err error
			pan interface{}
		}
		out := make([]elemResult, n)
		safe := func(i int) {
			defer func() {
				if r := recover(); r != nil {
					out[i].pan = r
				}
			}()
			out[i].ok, out[i].err = evalElem(i)
		}
		workers := runtime.GOMAXPROCS(0)
		if workers > n {
			workers = n
		}
		if workers < 2 {
			for i := 0; i < n; i++ {
				result, err := evalElem(i)
				if err != nil {
					return false, err
				}
				if (result && expression.Op == grammar.CollectionOpAny) || (!result && expression.Op == grammar.CollectionOpAll) {
					return result, nil
				}
			}
			return expression.Op == grammar.CollectionOpAll, nil
		}
		jobs := make(chan int)
		var wg sync.WaitGroup
		for w := 0; w < workers; w++ {
			wg.Add(1)
			go func() {
				defer wg.Done()
				for i := range jobs {
					safe(i)
				}
			}()
		}
		for i := 0; i < n; i++ {
			jobs <- i
		}
		close(jobs)
		wg.Wait()
		for i := 0; i < n; i++ {
			r := out[i]
			if r.pan != nil {
				panic(r.pan)
			}
			if r.err != nil {
				return false, r.err
			}
			if (r.ok && expression.Op == grammar.CollectionOpAny) || (!r.ok && expression.Op == grammar.CollectionOpAll) {
				return r.ok, nil
			}
		}

'''
s=s[:old_start]+new+s[old_end:]
s=s.replace('import (','import (\n\t"runtime"\n\t"sync"',1)
open('evaluate.go','w').write(s)
import subprocess
subprocess.run(['gofmt','-w','evaluate.go'],check=True)
