# json.Number values are normalised in place in the caller's map
s=open('evaluate.go').read()
old='''	if jn, ok := val.(json.Number); ok {
		if jni, err := jn.Int64(); err == nil {
			val = jni'''
assert old in s
s=s.replace(old,'''	if jn, ok := val.(json.Number); ok {
		if jni, err := jn.Int64(); err == nil {
			val = jni
			if m, ok := datum.(map[string]interface{}); ok && len(expression.Selector.Path) == 1 {
				m[expression.Selector.Path[0]] = jni
			}''')
open('evaluate.go','w').write(s)
