s=open('evaluate.go').read()
old='''					path := make([]string, 0, len(expression.Selector.Path)+1)
					path = append(path, expression.Selector.Path...)
					path = append(path, key.Interface().(string))'''
assert old in s
s=s.replace(old,'''					path := append(expression.Selector.Path, key.Interface().(string))''')
old='''				pathValue := make([]string, 0, len(expression.Selector.Path)+1)
				pathValue = append(pathValue, expression.Selector.Path...)
				pathValue = append(pathValue, fmt.Sprintf("%d", i))'''
assert old in s
s=s.replace(old,'''				pathValue := append(expression.Selector.Path, fmt.Sprintf("%d", i))''')
open('evaluate.go','w').write(s)
s=open('grammar/grammar.go').read()
# give selector paths spare capacity so that the append aliases
old='''	sel := Selector{
		Type: SelectorTypeBexpr,
		Path: []string{first.(string)},
	}'''
assert old in s
s=s.replace(old,'''	sel := Selector{
		Type: SelectorTypeBexpr,
		Path: append(make([]string, 0, 8), first.(string)),
	}''')
open('grammar/grammar.go','w').write(s)
