#!/bin/bash
# usage: goodrun.sh <name> <patch.diff>  - all four quick checks must stay silent (exit 0) on a behaviour-preserving change
name=$1; patch=$2
for id in C11 C12 C13 C14; do
  /verif/tools/mutrun.sh $name $patch $id 2>&1 | grep -E "mutant=|VIOLATION|kind=|INFRA|suite:" | cut -c1-260 | head -6
done
