#!/usr/bin/env python3
# Regenerates MANIFEST.json; edit the tables below, not the JSON.
import json, sys
na = {
"C01":"Evaluate(expr, datum) is a pure function of its input; agreement with reference semantics needs an independent interpreter over generated inputs - no schedule, order, clock or fault for a simulator to own (the one runtime-chosen order is C14's subject).",
"C02":"Literal coercion and typed equality are strconv arithmetic on the input; nothing but inputs varies, so deterministic simulation has nothing to control.",
"C03":"A truth table over deterministic sub-outcomes; the errors it speaks of are evaluation results fully determined by (expression, datum), not injected faults.",
"C04":"Algebraic relation between pairs of pure evaluations of the same input; no nondeterminism or fault involved.",
"C05":"A lookup table over inputs x one configuration value; pure function, nothing to schedule or fail.",
"C06":"Fold semantics over inputs; list iteration is index-ordered and deterministic, and the only nondeterministic part (map order) is decided under C14.",
"C07":"Equivalence of three selector spellings is a parser/evaluator identity over inputs; no schedule, time, I/O or fault.",
"C08":"Non-interference between two runs that differ only in input; nothing nondeterministic separates them.",
"C09":"Totality over the reflect type universe; every panic is a deterministic function of the datum's kind - input generation, not simulation (the harness only has to recover such panics).",
"C10":"Totality of a deterministic parser over byte strings; its recover() path is triggered by input, not by an injected fault; flipping bytes of an expression would be mutation fuzzing under another name.",
"C15":"Language membership and AST shape are pure functions of the input string.",
"C16":"Print-then-parse round trip is a pure function of strings/trees.",
"C17":"Element-wise coherence of Execute with Evaluate is universal over inputs; the two Filter facets a simulator can own (input unmodified / no carried state, map-order insensitivity) are exercised inside the C13 and C14 workloads, and claiming C17 on that basis would overclaim.",
"C18":"Permutations and repetitions of options are a finite algebra over configurations feeding a pure function.",
"C19":"Rendering is a pure function of the tree; the property says nothing about failing writers.",
"C20":"A static correspondence between two source files; nothing executes, and pigeon is not installed so regeneration is impossible offline.",
}
checks = {
"C11": dict(engine="abortsim", category="fault_enumeration",
  text="The parse budget is a cooperative fault point compiled into the parser (abort at step n+1, recovered into an error). For each sampled input (the repository's parser tests, seeded grammar derivations, token-level mutations, early-failing inputs with a long unread tail, flat chains of 60-300 terms, nested parentheses to depth 16 whose unlimited parse is never run) every abort point is enumerated - all n in [1,S+2] when the unlimited parse takes S<=1500/4096 steps; n<=64, S+-k, a geometric sweep to 2^18/2^22, seeded samples and huge budgets up to 2^64-1 otherwise - through both grammar.Parse+MaxExpressions and bexpr.CreateEvaluator+WithMaxExpressions (with other options around it, and as the last of several budget options in one list), each API driven reference-first or limited-first (threshold located through the public option before any unlimited parse of that input). Oracles: budget 0 = no budget; the result is exactly the unlimited one or nil + max-expressions error; the threshold is monotone and exceeds the instrumented step count by at most one; parseExpr entries counted by instrumentation never exceed n+1; statements executed stay proportional to n; an aborted parse leaves no residue for later parses; the result for a budget does not depend on what was parsed before, nor - a second phase on the simsched engine - on what other callers parse at the same time (2-4 callers creating evaluators with budgets around the measured step counts under seeded schedules), nor - a volume phase on the untouched build - on how many hostile inputs the process has refused before (30 000-120 000 distinct refusals under budget B per worker process, then 80 000 / 1 500 000 distinct harmless inputs far below B that must all parse), nor on whether the process has seen the input before (fresh twins of seven templates, each parsed twice in a row under budgets around its step count). Complete per input over abort points; inputs are sampled, so this is evidence, not proof.",
  design="4.4",
  note="Trusted: the AST instrumenter (checked on every run by running the repository's own suite on the instrumented copy), the step definition (entry of (*parser).parseExpr in the current tree; if that function disappears only the proportional bound applies), the learned text of the budget error (taken from budget 1 on a calibration input, not copied from the source).",
  technique="deterministic simulation: enumeration of injected abort points (parse budget) inside a running parse, differential against the unlimited run"),
"C14": dict(engine="ordersim", category="exploration",
  text="The order in which map entries are visited is the runtime's choice; in the instrumented copy every such choice inside go-bexpr's packages (reflect MapKeys/MapRange incl. method expressions, range over a map) goes through the simulator, which imposes the order an explicit tape dictates. For each seeded case - quantifiers in all binding modes, nested, Filter.Execute, generated expressions over generated data; maps of 2-8 entries with string, named-string and interface keys and case-colliding key names, whose elements are built and measured to mix true/false/error; optionally on a used object that has first evaluated a sibling map - the canonical order, its reverse, all rotations, all entry-first orders, seeded permutations and, for trees of <=5040 leaves, every order are executed and must give the same (boolean, error-or-not) / (result, error-or-not). Six orders of every case are also run as a fresh object's first call. When the library reads the clock, draws random numbers, asks for the processor count or starts goroutines of its own, those are simulator-owned too (logical clock with jumps, seeded stream, reported processor count 2/3/4/8, seeded schedules of the library's goroutines with modelled channels) and must not change the outcome. Non-trivial cases are then repeated 200x on the untouched build under the real runtime to catch order sources the seam does not control. Seeded search over orders: a clean run is evidence, not proof.",
  design="4.3",
  note="Trusted: the instrumenter's order seam covers every iteration-order source inside go-bexpr's packages (listed in the evidence; backed by the uncontrolled probe); key kinds in the pools have a value order. A panic is treated as an error outcome here (that it is a panic is C09's subject).",
  technique="deterministic simulation: simulator-owned map iteration order, seeded and exhaustive order tapes, plus uncontrolled-repetition probe"),
"C13": dict(engine="simsched", category="exploration",
  text="One simulated caller drives long-lived evaluators and filters through seeded histories of 5-40 operations, one in twenty of 100-400, one in a hundred a marathon of 1500-4000 calls on a single object, plus the same call repeated on collections of 1100-2600 records with distinct values; every second worker process is aged first (1600 calls over distinct key sets, strings and expressions) (Evaluate, Execute, Expression, caller-side in-place mutation of the datum, forced GC, creation of further objects) with faults injected inside operations (the value-transformation hook fails on its j-th invocation; the simulated clock jumps; the caller edits the container Execute returned; data that make calls error or panic). After every operation the outcome must equal that of a freshly created object on a pristine rebuild of the datum as the caller last left it, the datum's deep fingerprint (values, pointer topology, slice contents up to capacity, unexported fields) must be unchanged, Expression() must return the creation string byte for byte, and every value Execute returned must still be what it was when all later calls have returned. Seeded search over histories: evidence, not proof.",
  design="4.2",
  note="Trusted: the fingerprint covers everything reachable by reflection; the fresh object is the reference (the implementation is its own oracle for what a result should be). Hook panics are not injected (the library promises nothing about them).",
  technique="deterministic simulation: seeded operation histories with in-operation fault injection, checked op by op against a stateless reference (fresh object)"),
"C12": dict(engine="simsched", category="exploration",
  text="k=2..4 caller goroutines share evaluators/filters/data, sometimes through by-value copies of one evaluator made before first use (mixed plans, hammer plans where every caller makes the same calls on one object, plans where callers only create their own objects); a cooperative scheduler that the race detector cannot see (plain loads/stores + Gosched, //go:norace) decides at statement granularity which caller runs, from seeded plans (back-to-back, PCT-style change points per operation, store-window bias, sync-gap bias right after lock/unlock/atomic statements, dense first-use, round-robin quanta, lockstep). Goroutines, channels, select, WaitGroups and timers inside the library itself are modelled (they become tasks and hand-offs of the same scheduler). Plans are executed in-process (throughput), cold, and in a first-use phase (hammer plans, each in a fresh process); cold means: generated by a purely sequential process, executed concurrent-run-first in fresh processes of the plain and the -race build. Oracles: every concurrent call returns what a fresh object returns sequentially; the outcome classes of the concurrent run and of the sequential run that follows it equal those of the sequential generating process (damage that outlives the objects); no ThreadSanitizer report (judged only by the synchronisation the library itself performs); shared data fingerprints and returned values unchanged; no deadlock on modelled locks or channels. Seeded search over schedules: evidence, not proof.",
  design="4.1",
  note="Trusted: ThreadSanitizer as shipped with the Go toolchain (its verdict is a proof when it reports; sync.Pool randomness under -race makes silence non-deterministic, so confirmations retry); statement-level yields (interleavings inside reflect/regexp/pointerstructure calls are not split); Mutex/RWMutex/Once/WaitGroup.Wait and go statements inside the library are modelled (spawned goroutines become tasks), channels/select/Cond are reported as unmodelled (a run that blocks on one ends in exit 2).",
  technique="deterministic simulation: seeded cooperative scheduling of caller goroutines with the race detector as in-run monitor and sequential-equivalence oracle"),
}
claimed = sys.argv[1:] if len(sys.argv) > 1 else []
m = {
 "version":1,
 "setup_cmd":"./setup.sh",
 "hooks":{
   "guard":"verif",
   "enable":"no hooks are committed in /repo: every check copies /repo's working tree to a scratch dir, generates instrumented twins of each non-test file as X_verif.go (//go:build verif) with go/ast and builds the workers with -tags verif against that copy",
   "baseline_off_cmd":"cd /repo && GOFLAGS=-mod=mod GOPROXY=off GOSUMDB=off GOTOOLCHAIN=local go test -vet=off -count=1 ./...",
   "source_commits":[],
   "add_only":True
 },
 "engines":[
  {"name":"abortsim","path":"simlib/engine/abort.go","serves_properties":["C11"],"kind_free_text":"fault-point enumeration: every parse-budget abort point of sampled inputs, instrumented step counting"},
  {"name":"ordersim","path":"simlib/engine/order.go","serves_properties":["C14"],"kind_free_text":"simulator-owned map iteration order (order tapes over an AST-inserted seam) + uncontrolled-repetition probe"},
  {"name":"simsched","path":"simlib/engine/sched.go","serves_properties":["C12","C13"],"kind_free_text":"seeded cooperative scheduler over caller goroutines at statement-level yield points, race detector as monitor, histories vs fresh-object reference"},
 ],
 "checks":[],
 "notes":"All checks: bin/vcheck check <id> [--tier quick|thorough], honour VERIF_SEED / VERIF_TIER, rebuild from /repo's working tree through a scratch copy, write evidence/<id>.json, exit 0/1/2 (2 = infrastructure trouble, never a violation). Replay: bin/vcheck replay <file>. Known findings: known_findings.txt.",
 "not_applicable":[{"property_id":k,"reason":v} for k,v in na.items()]
}
for pid in sorted(claimed):
    c = checks[pid]
    m["checks"].append({
      "property_id": pid,
      "quick_cmd": f"bin/vcheck check {pid} --tier quick",
      "thorough_cmd": f"bin/vcheck check {pid} --tier thorough",
      "evidence_file": f"/verif/evidence/{pid}.json",
      "replay_cmd_template": "bin/vcheck replay {path}",
      "engine": c["engine"],
      "level_claimed": {"category": c["category"], "text": c["text"], "design_ref": "DESIGN.md section " + c["design"]},
      "level_note": c["note"],
      "technique": c["technique"],
    })
for pid in sorted(checks):
    if pid not in claimed:
        m["not_applicable"].append({"property_id": pid, "reason": "not yet claimed: the engine for this property is still being built (a deterministic-simulation target per DESIGN.md section 2)"})
json.dump(m, open("/verif/MANIFEST.json","w"), indent=1)
print("claimed:", claimed)
