#!/bin/bash
# Re-runs every seeded breaking change against its property's quick check (expect exit 1)
# and every good refactoring against all four checks (expect exit 0). Prints one line each.
# usage: regress.sh [lanes]   (default 2 runs side by side; each check already uses all cores
# for its worker phases, the second lane fills the single-threaded confirm/minimise phases)
cd /verif
lanes=${1:-2}
jobs=$(mktemp /tmp/regress-jobs-XXXX)
for d in seeded/S-*; do
  id=$(basename $d); p=$(echo $id | cut -d- -f2)
  echo "$id /verif/$d/patch.diff $p" >> $jobs
done
for f in seeded/good/*.diff; do
  n=$(basename $f .diff)
  for p in C11 C12 C13 C14; do echo "G-$n /verif/$f $p" >> $jobs; done
done
if [ -n "${REGRESS_SKIP:-}" ]; then grep -vE "$REGRESS_SKIP" $jobs > $jobs.f; mv $jobs.f $jobs; fi
xargs -P $lanes -L 1 sh -c 'tools/mutrun.sh $0 $1 $2 2>&1 | grep -a -E "^mutant=|findings:" | paste -sd" "' < $jobs
rm -f $jobs
