#!/bin/bash
# Re-runs every seeded breaking change against its property's quick check (expect exit 1)
# and every good refactoring against all four checks (expect exit 0). Prints one line each.
cd /verif
for d in seeded/S-*; do
  id=$(basename $d); p=$(echo $id | cut -d- -f2)
  out=$(tools/mutrun.sh $id /verif/$d/patch.diff $p 2>&1 | grep -E "^mutant=" )
  echo "$out"
done
for f in seeded/good/*.diff; do
  n=$(basename $f .diff)
  for p in C11 C12 C13 C14; do
    out=$(tools/mutrun.sh G-$n /verif/$f $p 2>&1 | grep -E "^mutant=")
    echo "$out"
  done
done
