module verif.local/verifsim

go 1.18
