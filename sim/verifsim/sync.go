package verifsim

import "sync"

// Lock models (*sync.Mutex).Lock, (*sync.RWMutex).Lock and RLock for the
// cooperative scheduler: the instrumenter rewrites x.Lock() into
// verifsim.Lock(x.TryLock). The real primitive is still acquired, so the race
// detector sees the real happens-before edges; a task that cannot get the lock
// hands the processor to another task instead of sleeping in the runtime.
func Lock(try func() bool) {
	for !try() {
		blockedYield()
	}
}

const maxOnce = 64

var (
	onceBusy  [maxOnce]*sync.Once
	onceOwner [maxOnce]int
)

//go:norace
func onceFind(o *sync.Once) int {
	for i := range onceBusy {
		if onceBusy[i] == o {
			return i
		}
	}
	return -1
}

//go:norace
func onceEnter(o *sync.Once) bool {
	if i := onceFind(o); i >= 0 {
		return onceOwner[i] == CurTask() // re-entrant call: let the real Once deadlock/panic as it would
	}
	for i := range onceBusy {
		if onceBusy[i] == nil {
			onceBusy[i] = o
			onceOwner[i] = CurTask()
			return true
		}
	}
	return true
}

//go:norace
func onceLeave(o *sync.Once) {
	if i := onceFind(o); i >= 0 {
		onceBusy[i] = nil
	}
}

// OnceDo models (*sync.Once).Do: a second task arriving while the first is
// still inside f (parked at a yield point) waits cooperatively.
func OnceDo(o *sync.Once, f func()) {
	for !onceEnter(o) {
		blockedYield()
	}
	defer onceLeave(o)
	o.Do(f)
}

// ---- WaitGroup ---------------------------------------------------------------------
//
// wg.Add / wg.Done / wg.Wait become WGAdd / WGDone / WGWait. The real WaitGroup
// is still driven (the race detector sees the real Done -> Wait edges); under
// the scheduler the counter is mirrored in a table so that a waiting task knows,
// without asking the runtime, when the real Wait would return.

const maxWG = 64

var (
	wgPtr [maxWG]*sync.WaitGroup
	wgCnt [maxWG]int
)

//go:norace
func wgReset() {
	for i := range wgPtr {
		wgPtr[i] = nil
		wgCnt[i] = 0
	}
}

//go:norace
func wgDelta(wg *sync.WaitGroup, d int) {
	free := -1
	for i := range wgPtr {
		if wgPtr[i] == wg {
			wgCnt[i] += d
			if wgCnt[i] <= 0 {
				wgPtr[i] = nil
				wgCnt[i] = 0
			}
			return
		}
		if wgPtr[i] == nil && free < 0 {
			free = i
		}
	}
	if d > 0 && free >= 0 {
		wgPtr[free] = wg
		wgCnt[free] = d
	}
}

//go:norace
func wgCount(wg *sync.WaitGroup) int {
	for i := range wgPtr {
		if wgPtr[i] == wg {
			return wgCnt[i]
		}
	}
	return 0
}

func WGAdd(wg *sync.WaitGroup, n int) {
	wg.Add(n)
	if schedActive() {
		wgDelta(wg, n)
	}
}

func WGDone(wg *sync.WaitGroup) {
	if schedActive() {
		wgDelta(wg, -1)
	}
	wg.Done()
}

func WGWait(wg *sync.WaitGroup) {
	if schedActive() {
		for wgCount(wg) > 0 {
			blockedYield()
		}
	}
	wg.Wait()
}

// ---- Cond -------------------------------------------------------------------------
//
// c.Wait / c.Signal / c.Broadcast become CondWait / CondSignal / CondBroadcast.
// Under the scheduler waiters take tickets and are released first come first
// served; a Signal nobody waits for is lost, as with the real thing.

const maxCond = 32

var (
	condPtr     [maxCond]*sync.Cond
	condNext    [maxCond]uint64 // tickets handed out
	condGranted [maxCond]uint64 // tickets released
)

//go:norace
func condReset() {
	for i := range condPtr {
		condPtr[i] = nil
	}
}

//go:norace
func condSlot(c *sync.Cond) int {
	free := -1
	for i := range condPtr {
		if condPtr[i] == c {
			return i
		}
		if condPtr[i] == nil && free < 0 {
			free = i
		}
	}
	if free < 0 {
		// evict one nobody waits on
		for i := range condPtr {
			if condGranted[i] == condNext[i] {
				free = i
				break
			}
		}
	}
	if free < 0 {
		abort("too many condition variables in use by the library")
	}
	condPtr[free], condNext[free], condGranted[free] = c, 0, 0
	return free
}

//go:norace
func condTake(i int) uint64 {
	t := condNext[i]
	condNext[i]++
	return t
}

//go:norace
func condReleased(i int, c *sync.Cond, t uint64) bool { return condPtr[i] == c && condGranted[i] > t }

//go:norace
func condSignal(c *sync.Cond, all bool) {
	i := condSlot(c)
	if all {
		condGranted[i] = condNext[i]
	} else if condGranted[i] < condNext[i] {
		condGranted[i]++
	}
}

func CondWait(c *sync.Cond) {
	if !schedActive() {
		c.Wait()
		return
	}
	i := condSlot(c)
	t := condTake(i)
	c.L.Unlock()
	for !condReleased(i, c, t) {
		blockedYield()
	}
	if tl, ok := c.L.(interface{ TryLock() bool }); ok {
		Lock(tl.TryLock)
	} else {
		c.L.Lock()
	}
}

func CondSignal(c *sync.Cond) {
	if schedActive() {
		condSignal(c, false)
	}
	c.Signal()
}

func CondBroadcast(c *sync.Cond) {
	if schedActive() {
		condSignal(c, true)
	}
	c.Broadcast()
}
