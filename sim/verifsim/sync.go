package verifsim

import "sync"

// Lock models (*sync.Mutex).Lock, (*sync.RWMutex).Lock and RLock for the
// cooperative scheduler: the instrumenter rewrites x.Lock() into
// verifsim.Lock(x.TryLock). The real primitive is still acquired, so the race
// detector sees the real happens-before edges; a task that cannot get the lock
// hands the processor to another task instead of sleeping in the runtime.
func Lock(try func() bool) {
	for !try() {
		blockedYield()
	}
}

const maxOnce = 64

var (
	onceBusy  [maxOnce]*sync.Once
	onceOwner [maxOnce]int
)

//go:norace
func onceFind(o *sync.Once) int {
	for i := range onceBusy {
		if onceBusy[i] == o {
			return i
		}
	}
	return -1
}

//go:norace
func onceEnter(o *sync.Once) bool {
	if i := onceFind(o); i >= 0 {
		return onceOwner[i] == CurTask() // re-entrant call: let the real Once deadlock/panic as it would
	}
	for i := range onceBusy {
		if onceBusy[i] == nil {
			onceBusy[i] = o
			onceOwner[i] = CurTask()
			return true
		}
	}
	return true
}

//go:norace
func onceLeave(o *sync.Once) {
	if i := onceFind(o); i >= 0 {
		onceBusy[i] = nil
	}
}

// OnceDo models (*sync.Once).Do: a second task arriving while the first is
// still inside f (parked at a yield point) waits cooperatively.
func OnceDo(o *sync.Once, f func()) {
	for !onceEnter(o) {
		blockedYield()
	}
	defer onceLeave(o)
	o.Do(f)
}
