package verifsim

import (
	"fmt"
	"reflect"
	"sort"
)

// Special order codes (valid for every arity). Codes below SpecialBase are
// Lehmer codes (arity <= 12) or shuffle seeds (arity > 12); 0 is the identity.
const (
	SpecialBase  = uint64(1) << 63
	CodeReverse  = SpecialBase + 1
	CodeRotate0  = SpecialBase + 1000   // + k: rotate left by k
	CodeFirst0   = SpecialBase + 100000 // + i: entry i first, the rest in canonical order
	maxLehmerN   = 12
	maxDecisions = 64
)

var fact [21]uint64

func init() {
	fact[0] = 1
	for i := 1; i <= 20; i++ {
		fact[i] = fact[i-1] * uint64(i)
	}
}

// Factorial returns n! for n <= 20 and MaxUint64 above.
func Factorial(n int) uint64 {
	if n <= 20 {
		return fact[n]
	}
	return ^uint64(0)
}

// Perm decodes an order code into a permutation of 0..n-1 (position -> index
// into the canonical order).
func Perm(n int, code uint64) []int {
	p := make([]int, n)
	for i := range p {
		p[i] = i
	}
	if code == 0 || n < 2 {
		return p
	}
	if code >= SpecialBase {
		switch {
		case code == CodeReverse:
			for i := range p {
				p[i] = n - 1 - i
			}
		case code >= CodeFirst0:
			f := int((code - CodeFirst0) % uint64(n))
			p[0] = f
			j := 1
			for i := 0; i < n; i++ {
				if i != f {
					p[j] = i
					j++
				}
			}
		case code >= CodeRotate0:
			k := int((code - CodeRotate0) % uint64(n))
			for i := range p {
				p[i] = (i + k) % n
			}
		}
		return p
	}
	if n <= maxLehmerN {
		c := code % fact[n]
		avail := make([]int, n)
		for i := range avail {
			avail[i] = i
		}
		for i := 0; i < n; i++ {
			f := fact[n-1-i]
			d := int(c / f)
			c %= f
			p[i] = avail[d]
			avail = append(avail[:d], avail[d+1:]...)
		}
		return p
	}
	// large arity: seeded Fisher-Yates
	x := code
	for i := n - 1; i > 0; i-- {
		x += 0x9e3779b97f4a7c15
		z := x
		z = (z ^ (z >> 30)) * 0xbf58476d1ce4e5b9
		z = (z ^ (z >> 27)) * 0x94d049bb133111eb
		z ^= z >> 31
		j := int(z % uint64(i+1))
		p[i], p[j] = p[j], p[i]
	}
	return p
}

//go:norace
func nextDecision(n int, site int, mp uintptr) uint64 {
	op := curTask().op
	if op == nil {
		return 0
	}
	var code uint64
	if op.TapePos < len(op.Tape) {
		code = op.Tape[op.TapePos]
	}
	op.TapePos++
	if len(op.Decisions) < maxDecisions {
		op.Decisions = append(op.Decisions, Decision{Site: site, N: n, Code: code, Map: mp})
	}
	op.NDecisions++
	return code
}

func kindRank(k reflect.Kind) int {
	switch k {
	case reflect.Bool:
		return 1
	case reflect.Int, reflect.Int8, reflect.Int16, reflect.Int32, reflect.Int64:
		return 2
	case reflect.Uint, reflect.Uint8, reflect.Uint16, reflect.Uint32, reflect.Uint64, reflect.Uintptr:
		return 3
	case reflect.Float32, reflect.Float64:
		return 4
	case reflect.String:
		return 5
	}
	return 6
}

func lessValue(a, b reflect.Value) bool {
	for a.Kind() == reflect.Interface && !a.IsNil() {
		a = a.Elem()
	}
	for b.Kind() == reflect.Interface && !b.IsNil() {
		b = b.Elem()
	}
	ra, rb := kindRank(a.Kind()), kindRank(b.Kind())
	if ra != rb {
		return ra < rb
	}
	switch ra {
	case 1:
		return !a.Bool() && b.Bool()
	case 2:
		return a.Int() < b.Int()
	case 3:
		return a.Uint() < b.Uint()
	case 4:
		return a.Float() < b.Float()
	case 5:
		return a.String() < b.String()
	}
	return fmt.Sprintf("%#v", a) < fmt.Sprintf("%#v", b)
}

// orderIndices returns the visiting order of vals as indices: canonical order
// permuted by the next decision of the running op.
func orderIndices(vals []reflect.Value, site int, mp uintptr) []int {
	n := len(vals)
	ix := make([]int, n)
	for i := range ix {
		ix[i] = i
	}
	if n < 2 {
		return ix
	}
	sort.SliceStable(ix, func(i, j int) bool { return lessValue(vals[ix[i]], vals[ix[j]]) })
	code := nextDecision(n, site, mp)
	if code == 0 {
		return ix
	}
	p := Perm(n, code)
	out := make([]int, n)
	for i, j := range p {
		out[i] = ix[j]
	}
	return out
}

func applyOrder(keys []reflect.Value, site int, mp uintptr) []reflect.Value {
	if len(keys) < 2 {
		return keys
	}
	ix := orderIndices(keys, site, mp)
	out := make([]reflect.Value, len(keys))
	for i, j := range ix {
		out[i] = keys[j]
	}
	return out
}

// MapKeys replaces reflect.Value.MapKeys in the instrumented copy.
func MapKeys(v reflect.Value, site int) []reflect.Value {
	keys := v.MapKeys()
	if !seamOn() {
		return keys
	}
	return applyOrder(keys, site, v.Pointer())
}

//go:norace
func seamOn() bool { return mode != ModeOff && orderSeam }

// MapIter replaces *reflect.MapIter in the instrumented copy.
type MapIter struct {
	m    reflect.Value
	keys []reflect.Value
	i    int
	real *reflect.MapIter
}

// MapRange replaces reflect.Value.MapRange in the instrumented copy.
func MapRange(v reflect.Value, site int) *MapIter {
	if !seamOn() {
		return &MapIter{real: v.MapRange()}
	}
	return &MapIter{m: v, keys: applyOrder(v.MapKeys(), site, v.Pointer()), i: -1}
}

func (it *MapIter) Next() bool {
	if it.real != nil {
		return it.real.Next()
	}
	for {
		it.i++
		if it.i >= len(it.keys) {
			return false
		}
		if it.m.MapIndex(it.keys[it.i]).IsValid() {
			return true
		}
	}
}

func (it *MapIter) Key() reflect.Value {
	if it.real != nil {
		return it.real.Key()
	}
	return it.keys[it.i]
}

func (it *MapIter) Value() reflect.Value {
	if it.real != nil {
		return it.real.Value()
	}
	return it.m.MapIndex(it.keys[it.i])
}

// KeysOf replaces `range m` over a map in the instrumented copy: the loop
// ranges over the returned keys and looks each one up again.
func KeysOf[M ~map[K]V, K comparable, V any](m M, site int) []K {
	out := make([]K, 0, len(m))
	for k := range m {
		out = append(out, k)
	}
	if !seamOn() || len(out) < 2 {
		return out
	}
	snap := make([]K, len(out))
	copy(snap, out)
	vals := make([]reflect.Value, len(snap))
	for i := range snap {
		vals[i] = reflect.ValueOf(&snap[i]).Elem()
	}
	for i, j := range orderIndices(vals, site, reflect.ValueOf(m).Pointer()) {
		out[i] = snap[j]
	}
	return out
}

// HookShouldFail is consulted by the harness's value-transformation hooks: it
// counts the hook invocations of the running task's current op and reports
// whether this one is the injected failure.
//
//go:norace
func HookShouldFail() bool {
	op := curTask().op
	if op == nil {
		return false
	}
	// A goroutine the library started counts on the op of the caller that started
	// it, and once an op has started a goroutine none of its later hook calls is
	// failed: which call is "the n-th" would then depend on how the goroutines are
	// scheduled, and the fault would be the harness's own nondeterminism.
	if op.hookParent != nil {
		op.hookParent.HookCalls++
		return false
	}
	op.HookCalls++
	if op.noHookFail {
		return false
	}
	if op.HookFailAt > 0 && op.HookCalls == op.HookFailAt {
		op.HookFired = true
		return true
	}
	return false
}
