package verifsim

import (
	"os"
	"reflect"
	"runtime"
	"sync"
)

// ---- channels --------------------------------------------------------------------
//
// The instrumenter rewrites every channel operation inside the library:
//
//	ch <- v            verifsim.Send(ch, v)
//	<-ch               verifsim.Recv(ch)
//	v, ok := <-ch      verifsim.Recv2(ch)
//	close(ch)          verifsim.Close(ch)
//	make(chan T, n)    verifsim.NewChan(make(chan T, n))
//	for v := range ch  a loop over Recv2
//	select             verifsim.Select(...) followed by a switch on the chosen case
//
// Outside the scheduler (ModeOff, ModeCount) the wrappers perform the real
// operation. Under the scheduler a task that cannot proceed hands the processor
// on instead of sleeping in the runtime. Buffered channels still use the real
// channel, with non-blocking attempts, so the race detector sees exactly the
// real happens-before edges. An unbuffered channel cannot rendezvous that way
// (no task ever sleeps inside the real operation), so the hand-over goes
// through a side table: the sender posts an offer and waits until a receiver
// has taken it; a real mutex locked around both halves gives the race detector
// the send -> receive and receive -> send-completed edges.

type chanState struct {
	key     uintptr
	mu      sync.Mutex
	has     bool
	offer   reflect.Value
	ticket  uint64 // offers posted
	served  uint64 // offers taken
	closed  bool
	waiting int // receivers (plain or in a select) currently waiting on the channel
	senders int // senders currently inside a rendezvous on the channel
	stamp   uint64
}

const maxChans = 256

// The table is static: its mutexes exist before any goroutine does, so the race
// detector never sees one of them being initialised by one task and locked by
// another.
var (
	chanTab  [maxChans]chanState
	chanUsed [maxChans]bool
)

//go:norace
func chanReset() {
	chanOps = 0
	for i := range chanTab {
		chanUsed[i] = false
	}
}

//go:norace
func chanFind(key uintptr) *chanState {
	for i := range chanTab {
		if chanUsed[i] && chanTab[i].key == key {
			return &chanTab[i]
		}
	}
	return nil
}

//go:norace
func (s *chanState) init(key uintptr) {
	s.key = key
	s.has = false
	s.offer = reflect.Value{}
	s.ticket, s.served = 0, 0
	s.closed = false
	s.waiting = 0
	s.senders = 0
	chanStamp++
	s.stamp = chanStamp
}

//go:norace
func chanInstall(key uintptr) *chanState {
	for i := range chanTab {
		if !chanUsed[i] {
			chanUsed[i] = true
			chanTab[i].init(key)
			return &chanTab[i]
		}
	}
	// evict an idle entry; failing that the oldest closed one nobody waits on (a
	// later receive still sees the closure through the real channel; only a send
	// on it would then wait instead of panicking)
	var victim *chanState
	for i := range chanTab {
		o := &chanTab[i]
		if o.has || o.waiting != 0 || o.senders != 0 {
			continue
		}
		if !o.closed {
			victim = o
			break
		}
		if victim == nil || o.stamp < victim.stamp {
			victim = o
		}
	}
	if victim != nil {
		victim.init(key)
	}
	return victim
}

var chanStamp uint64

var chanOps int

// ChanOps reports how many channel operations of the library ran under the
// scheduler since the last Reset.
//
//go:norace
func ChanOps() int { return chanOps }

//go:norace
func countChanOp() { chanOps++ }

//go:norace
func chanForget(key uintptr) {
	for i := range chanTab {
		if chanUsed[i] && chanTab[i].key == key {
			chanUsed[i] = false
		}
	}
}

var chanDebug = os.Getenv("VERIF_CHAN_DEBUG") != ""

func chanTrace(what string, key uintptr, s *chanState) {
	if chanDebug {
		if s != nil {
			println("chan", what, key, "task", cur, "closed", s.closed, "has", s.has, "waiting", s.waiting, "ticket", s.ticket, "served", s.served)
		} else {
			println("chan", what, key, "task", cur)
		}
	}
}

func chanGet(key uintptr) *chanState {
	if s := chanFind(key); s != nil {
		return s
	}
	s := chanInstall(key)
	if s == nil {
		abort("too many channels in use by the library")
	}
	return s
}

//go:norace
func (s *chanState) isClosed() bool { return s != nil && s.closed }

//go:norace
func (s *chanState) setClosed() { s.closed = true }

//go:norace
func (s *chanState) hasOffer() bool { return s != nil && s.has }

//go:norace
func (s *chanState) post(v reflect.Value) uint64 {
	s.offer = v
	s.has = true
	s.ticket++
	return s.ticket
}

//go:norace
func (s *chanState) retract() {
	s.has = false
	s.offer = reflect.Value{}
	s.served = s.ticket
}

//go:norace
func (s *chanState) take() reflect.Value {
	v := s.offer
	s.offer = reflect.Value{}
	s.has = false
	s.served = s.ticket
	return v
}

//go:norace
func (s *chanState) servedUpTo(t uint64) bool { return s.served >= t }

//go:norace
func (s *chanState) addWaiting(d int) { s.waiting += d }

//go:norace
func (s *chanState) addSenders(d int) { s.senders += d }

//go:norace
func (s *chanState) nWaiting() int {
	if s == nil {
		return 0
	}
	return s.waiting
}

func (s *chanState) edge() {
	s.mu.Lock()
	//lint:ignore SA2001 the empty critical section is the happens-before edge
	s.mu.Unlock()
}

// NewChan wraps make(chan ...): a new channel may reuse the address of a dead
// one, whose side-table entry must not survive.
func NewChan[C any](ch C) C {
	if simOn() {
		if v := reflect.ValueOf(ch); v.Kind() == reflect.Chan && !v.IsNil() {
			chanTrace("new", v.Pointer(), chanFind(v.Pointer()))
			chanForget(v.Pointer())
		}
	}
	return ch
}

// Send replaces `ch <- v`.
func Send[T any](ch chan<- T, v T) {
	if !schedActive() {
		ch <- v
		return
	}
	sendValue(reflect.ValueOf(ch), reflect.ValueOf(&v).Elem())
}

// Recv replaces `<-ch`.
func Recv[T any](ch <-chan T) T {
	if !schedActive() {
		return <-ch
	}
	v, _ := recvValue(reflect.ValueOf(ch))
	return valueAs[T](v)
}

// Recv2 replaces `v, ok := <-ch`.
func Recv2[T any](ch <-chan T) (T, bool) {
	if !schedActive() {
		v, ok := <-ch
		return v, ok
	}
	v, ok := recvValue(reflect.ValueOf(ch))
	return valueAs[T](v), ok
}

func valueAs[T any](v reflect.Value) T {
	var zero T
	if !v.IsValid() {
		return zero
	}
	if x, ok := v.Interface().(T); ok {
		return x
	}
	return zero
}

// Close replaces close(ch).
func Close[T any](ch chan<- T) {
	if !schedActive() {
		close(ch)
		return
	}
	v := reflect.ValueOf(ch)
	if v.IsNil() {
		close(ch) // panics as the real thing does
		return
	}
	s := chanGet(v.Pointer())
	chanTrace("close", v.Pointer(), s)
	close(ch) // a second close panics here
	s.setClosed()
	s.edge()
}

func blockForever() {
	for {
		blockedYield()
	}
}

func sendValue(ch, v reflect.Value) {
	countChanOp()
	if ch.IsNil() {
		blockForever()
	}
	if ch.Cap() > 0 {
		for !ch.TrySend(v) { // panics on a closed channel, as the real send does
			blockedYield()
		}
		return
	}
	s := chanGet(ch.Pointer())
	chanTrace("send", ch.Pointer(), s)
	s.addSenders(1) // the entry must not be given to another channel while this send is in flight
	defer s.addSenders(-1)
	for s.hasOffer() {
		if s.isClosed() {
			panic(sendOnClosed{})
		}
		blockedYield()
	}
	if s.isClosed() {
		panic(sendOnClosed{})
	}
	t := s.post(v)
	s.edge()
	for !s.servedUpTo(t) {
		if s.isClosed() {
			s.retract()
			panic(sendOnClosed{})
		}
		blockedYield()
	}
	s.edge()
}

type sendOnClosed struct{}

func (sendOnClosed) Error() string    { return "send on closed channel" }
func (sendOnClosed) RuntimeError()    {}
func (e sendOnClosed) String() string { return e.Error() }

func recvValue(ch reflect.Value) (reflect.Value, bool) {
	countChanOp()
	if ch.IsNil() {
		blockForever()
	}
	var s *chanState
	unbuf := ch.Cap() == 0
	if unbuf {
		s = chanGet(ch.Pointer())
		s.addWaiting(1)
		defer s.addWaiting(-1)
	}
	for {
		if unbuf && s.hasOffer() {
			s.edge()
			v := s.take()
			s.edge()
			return v, true
		}
		if x, ok := ch.TryRecv(); x.IsValid() {
			return x, ok
		}
		blockedYield()
	}
}

// ---- select ------------------------------------------------------------------------

// SelCase is one communication clause of a select statement.
type SelCase struct {
	ch   reflect.Value
	send bool
	val  reflect.Value
}

// SelResult is what Select chose.
type SelResult struct {
	Index int // clause index; -1: default
	val   reflect.Value
	ok    bool
}

func RecvCase[T any](ch <-chan T) SelCase { return SelCase{ch: reflect.ValueOf(ch)} }

func SendCase[T any](ch chan<- T, v T) SelCase {
	return SelCase{ch: reflect.ValueOf(ch), send: true, val: reflect.ValueOf(&v).Elem()}
}

// SelRecv returns the value received by the chosen clause.
func SelRecv[T any](ch <-chan T, r SelResult) T { return valueAs[T](r.val) }

// SelRecv2 returns the value and the ok flag received by the chosen clause.
func SelRecv2[T any](ch <-chan T, r SelResult) (T, bool) { return valueAs[T](r.val), r.ok }

// Select replaces a select statement.
func Select(hasDefault bool, cases ...SelCase) SelResult {
	if !schedActive() {
		rc := make([]reflect.SelectCase, 0, len(cases)+1)
		for _, c := range cases {
			if c.send {
				rc = append(rc, reflect.SelectCase{Dir: reflect.SelectSend, Chan: c.ch, Send: c.val})
			} else {
				rc = append(rc, reflect.SelectCase{Dir: reflect.SelectRecv, Chan: c.ch})
			}
		}
		if hasDefault {
			rc = append(rc, reflect.SelectCase{Dir: reflect.SelectDefault})
		}
		if len(rc) == 0 {
			select {}
		}
		i, v, ok := reflect.Select(rc)
		if hasDefault && i == len(cases) {
			return SelResult{Index: -1}
		}
		return SelResult{Index: i, val: v, ok: ok}
	}
	// receivers waiting in a select count as waiting receivers for unbuffered senders
	var states [8]*chanState
	for i, c := range cases {
		if i < len(states) && !c.send && !c.ch.IsNil() && c.ch.Cap() == 0 {
			states[i] = chanGet(c.ch.Pointer())
		}
	}
	for _, s := range states {
		if s != nil {
			s.addWaiting(1)
		}
	}
	registered := true
	unregister := func() {
		if registered {
			registered = false
			for _, s := range states {
				if s != nil {
					s.addWaiting(-1)
				}
			}
		}
	}
	defer unregister()
	n := len(cases)
	for {
		start := 0
		if n > 1 {
			start = int(schedRand() % uint64(n))
		}
		for j := 0; j < n; j++ {
			i := (start + j) % n
			c := cases[i]
			if c.ch.IsNil() {
				continue
			}
			if c.send {
				if c.ch.Cap() > 0 {
					if c.ch.TrySend(c.val) { // panics on a closed channel, as the real send does
						return SelResult{Index: i}
					}
					continue
				}
				s := chanFind(c.ch.Pointer())
				if s.isClosed() || (s.nWaiting() > 0 && !s.hasOffer()) {
					unregister()
					sendValue(c.ch, c.val)
					return SelResult{Index: i}
				}
				continue
			}
			if c.ch.Cap() == 0 {
				if s := chanFind(c.ch.Pointer()); s.hasOffer() {
					s.edge()
					v := s.take()
					s.edge()
					return SelResult{Index: i, val: v, ok: true}
				}
			}
			if x, ok := c.ch.TryRecv(); x.IsValid() {
				return SelResult{Index: i, val: x, ok: ok}
			}
		}
		if hasDefault {
			return SelResult{Index: -1}
		}
		blockedYield()
	}
}

// ---- number of processors -----------------------------------------------------------

// NumProcs replaces runtime.GOMAXPROCS(0) and runtime.NumCPU() inside the
// library: under the simulator the answer is a parameter of the run.
func NumProcs(real int) int {
	if !simOn() {
		return real
	}
	return simProcs(real)
}

//go:norace
func simProcs(real int) int {
	procReads++
	if procs > 0 {
		return procs
	}
	// never the real value: the worker processes of one check run with different
	// GOMAXPROCS, and what the library sees must be a parameter of the run alone
	return 1
}

var (
	procs     int
	procReads int
)

// SetProcs sets what the library is told about the number of processors (0: one).
//
//go:norace
func SetProcs(n int) { procs = n }

// ProcReads reports how often the library asked since the last Reset.
//
//go:norace
func ProcReads() int { return procReads }

// GOMAXPROCS replaces runtime.GOMAXPROCS(n) with an argument that is not the
// literal 0.
func GOMAXPROCS(n int) int {
	if n > 0 || !simOn() {
		return runtime.GOMAXPROCS(n)
	}
	return NumProcs(runtime.GOMAXPROCS(0))
}
