// Package verifsim is the simulator runtime that the instrumented scratch copy
// of go-bexpr calls into. It owns every source of nondeterminism the claimed
// properties depend on: which caller goroutine runs (cooperative scheduler),
// the order in which map entries are visited, whether the value-transformation
// hook fails (per-op countdown held here for the harness), and it counts
// executed statements ("steps") per site.
//
// Everything here is //go:norace and uses plain loads and stores plus
// runtime.Gosched only: no channels, sync, sync/atomic, maps or syscalls, each
// of which would be a happens-before edge (or a runtime race hook) visible to
// ThreadSanitizer and would order every pair of accesses across a task switch.
package verifsim

import (
	"runtime"
)

// Site describes one yield point of the instrumented code.
type Site struct {
	File  string
	Line  int
	Func  string
	Entry bool // first statement of a function body
	Store bool // statement stores through a package-level variable, receiver or parameter (static guess)
	Sync  bool // statement calls into sync or sync/atomic (lock, unlock, atomic op, sync.Map, Once, Pool)
}

const (
	ModeOff   = 0 // every seam passes through
	ModeCount = 1 // count steps, apply order/hook seams, single caller
	ModeSched = 2 // cooperative scheduler active
)

// Point is one change point of a schedule: when task Task is Off steps into its
// Op-th operation it hands the processor to task To.
type Point struct {
	Task int `json:"task"`
	Op   int `json:"op"`
	Off  int `json:"off"`
	To   int `json:"to"`
}

// Decision records one map-order decision taken inside an op.
type Decision struct {
	Site int     `json:"site"`
	N    int     `json:"n"`
	Code uint64  `json:"code"`
	Map  uintptr `json:"-"` // identity of the map whose order was decided
}

// OpCtx carries everything an operation may consume nondeterministically. It is
// owned by exactly one task and touched by nobody else while the op runs.
type OpCtx struct {
	Obj        int      // id of the shared object the op works on (-1: none)
	Tape       []uint64 // map-order tape
	TapePos    int
	Decisions  []Decision // first few decisions taken (recorded)
	NDecisions int
	HookFailAt int // the HookFailAt-th hook call of this op fails (0: never)
	HookCalls  int
	HookFired  bool
	Steps      int         // yield steps executed inside the op
	Limit      int         // forced switch after this many steps (0: none)
	RecStores  bool        // record offsets of store-flagged sites
	StoreOffs  []int       // offsets (in steps) at which store-flagged sites ran
	SyncOffs   []int       // offsets at which sync-flagged sites ran
	ChildPanic string      // a goroutine the library spawned during this op panicked (recovered by the simulator)
	ClockJumps []ClockJump // simulated clock jumps (sorted by At)
	clockIdx   int
	ClockReads int    // how often the library read the clock during the op
	RandSeed   uint64 // seed of the op's pseudo-random stream
	randState  uint64
	RandDraws  int   // how often the library drew a random number during the op
	Sites      []int // if RecSites: site sequence (bounded)
	RecSites   bool
	kids       int    // goroutines started by the library during this op that are still alive
	hookParent *OpCtx // ops of spawned goroutines: the op of the caller that started them
	noHookFail bool   // the op has started goroutines: no injected hook failure from here on
}

type task struct {
	id       int
	op       *OpCtx
	opIdx    int
	points   []Point
	next     int
	done     bool
	started  bool
	blocked  bool
	parked   int    // site at which the task is parked (-1: not started)
	since    int    // steps since it last got the processor
	finished int    // number of ops finished
	parentOp *OpCtx // spawned children: the op of the task that spawned them
	gen      uint64 // spawned children: the run they belong to
}

// SwitchEvent is one entry of the run's event log.
type SwitchEvent struct {
	Step     uint64
	From, To int
	FromSite int
	ToSite   int
	FromOp   int
	FromOff  int
	Kind     uint8 // 0 change point, 1 quantum, 2 finish, 3 blocked, 4 forced(fairness)
}

// Stats are reach counters of one run.
type Stats struct {
	Steps           uint64
	Switches        int
	ByKind          [5]int
	SameObjSwitches int // switch while both tasks are inside an op on the same object
	MidOpSwitches   int // switch while both tasks are inside some op
	MaxInFlightSame int
	BlockedSpins    int
	Hash            uint64
}

const maxTasks = 512
const maxLog = 2048

var (
	mode      int
	orderSeam bool
	sites     []Site
	siteHits  []uint64
	steps     uint64

	cur      int
	ntasks   int
	tasks    [maxTasks]task
	mainTask task
	quantum  int
	stats    Stats
	log      [maxLog]SwitchEvent
	nlog     int
	streak   int // consecutive blocked switches without progress
	abortFn  func(reason string)
	hardCap  uint64
	capHit   bool
	liveKids int    // goroutines spawned by the library itself that have not finished
	planned  int    // tasks of the plan (the rest of tasks[:ntasks] are spawned children)
	gen      uint64 // run generation: goroutines left over from an earlier run never wake up again
	pickSeed uint64 // != 0: the next task is drawn from this stream instead of round-robin
	pickPos  uint64
	spawned  int  // goroutines the library started since the last Reset
	harness  bool // some harness has driven the simulator in this process (false: the repository's own tests)
)

// SetPick makes the scheduler draw the task to switch to from a seeded stream
// (0: round-robin in task order).
//
//go:norace
func SetPick(seed uint64) { pickSeed, pickPos = seed, 0 }

// Spawned reports how many goroutines the library started since the last Reset.
//
//go:norace
func Spawned() int { return spawned }

// schedRand is the scheduler's own deterministic stream (select choices, task picks).
//
//go:norace
func schedRand() uint64 {
	pickPos++
	z := pickSeed + pickPos*0x9e3779b97f4a7c15
	z = (z ^ (z >> 30)) * 0xbf58476d1ce4e5b9
	z = (z ^ (z >> 27)) * 0x94d049bb133111eb
	return z ^ (z >> 31)
}

// Abandon ends the current scheduled run from inside (an abort handler that does
// not want to take the process down): every goroutine of the run, including the
// caller, stays parked for good. It does not return.
func Abandon() {
	abandon()
	parkForever()
}

//go:norace
func abandon() {
	gen++
	cur = -1
}

// parkForever: a goroutine that belongs to an earlier run (the library leaked it
// or it was blocked for good when that run ended) must never run again.
func parkForever() {
	select {}
}

// RegisterSites is called from the generated init functions of the
// instrumented packages.
func RegisterSites(base int, s []Site) {
	need := base + len(s)
	for len(sites) < need {
		sites = append(sites, Site{})
		siteHits = append(siteHits, 0)
	}
	copy(sites[base:], s)
}

// Sites returns the site table.
func Sites() []Site { return sites }

//go:norace
func SiteHits(i int) uint64 { return siteHits[i] }

//go:norace
func Steps() uint64 { return steps }

// Reset puts the simulator into a clean ModeOff state.
//
//go:norace
func Reset() {
	harness = true
	mode = ModeOff
	orderSeam = false
	steps = 0
	for i := range siteHits {
		siteHits[i] = 0
	}
	cur = 0
	ntasks = 0
	mainTask = task{id: -1, parked: -1}
	for i := range tasks {
		tasks[i] = task{id: i, parked: -1}
	}
	quantum = 0
	stats = Stats{}
	nlog = 0
	streak = 0
	hardCap = 0
	capHit = false
	liveKids = 0
	planned = 0
	gen++
	pickSeed, pickPos = 0, 0
	spawned = 0
	procs, procReads = 0, 0
	clockReset()
	chanReset()
	wgReset()
	condReset()
}

//go:norace
func SetMode(m int) { mode = m }

//go:norace
func Mode() int { return mode }

// SetOrderSeam switches the map-order seam on (canonical order + tape) or off
// (the runtime's own order).
//
//go:norace
func SetOrderSeam(on bool) { orderSeam = on }

//go:norace
func SetAbort(f func(reason string)) { abortFn = f }

//go:norace
func SetHardCap(n uint64) { hardCap = n }

// CapHit reports whether the step cap fired since the last Reset.
//
//go:norace
func CapHit() bool { return capHit }

// ClearCapHit re-arms the step cap.
//
//go:norace
func ClearCapHit() { capHit = false }

//go:norace
func curTask() *task {
	if mode == ModeSched {
		return &tasks[cur]
	}
	return &mainTask
}

// CurTask returns the index of the running task (-1 outside ModeSched).
//
//go:norace
func CurTask() int {
	if mode == ModeSched {
		return cur
	}
	return -1
}

// BeginOp installs c as the running task's current operation.
//
//go:norace
func BeginOp(c *OpCtx) {
	t := curTask()
	t.op = c
	t.opIdx++
	// skip change points of operations that are already over
	for t.next < len(t.points) && t.points[t.next].Op < t.opIdx {
		t.next++
	}
}

//go:norace
func EndOp() {
	t := curTask()
	t.op = nil
	t.finished++
}

// CurOp returns the running task's current operation (nil if none).
//
//go:norace
func CurOp() *OpCtx { return curTask().op }

// StartRun prepares a k-task scheduled run. Must be called by the main
// goroutine before the task goroutines are started with `go`.
//
//go:norace
func StartRun(k int, first int, q int, points []Point) {
	if k > maxTasks {
		panic("verifsim: too many tasks")
	}
	ntasks = k
	planned = k
	quantum = q
	gen++
	for i := 0; i < k; i++ {
		tasks[i] = task{id: i, opIdx: -1, parked: -1}
	}
	for _, p := range points {
		if p.Task >= 0 && p.Task < k {
			tasks[p.Task].points = append(tasks[p.Task].points, p)
		}
	}
	for i := 0; i < k; i++ {
		sortPoints(tasks[i].points)
	}
	stats = Stats{Hash: 1469598103934665603}
	nlog = 0
	streak = 0
	cur = first % k
	mode = ModeSched
}

//go:norace
func sortPoints(p []Point) {
	for i := 1; i < len(p); i++ {
		for j := i; j > 0 && (p[j].Op < p[j-1].Op || (p[j].Op == p[j-1].Op && p[j].Off < p[j-1].Off)); j-- {
			p[j], p[j-1] = p[j-1], p[j]
		}
	}
}

// BeginMain prepares single-caller counting on the calling goroutine.
//
//go:norace
func BeginMain() {
	mainTask = task{id: -1, opIdx: -1, parked: -1}
	mode = ModeCount
}

// TaskEnter parks the calling goroutine until the scheduler gives it the
// processor for the first time.
//
//go:norace
func TaskEnter(id int) {
	g := gen
	for cur != id {
		if gen != g {
			parkForever()
		}
		runtime.Gosched()
	}
	tasks[id].started = true
}

// TaskExit marks the task finished and hands the processor on.
//
//go:norace
func TaskExit(id int) {
	t := &tasks[id]
	t.done = true
	to := nextRunnable(id, id+1)
	if to < 0 {
		cur = -1
		return
	}
	logSwitch(t, to, -1, 2)
	cur = to
}

// nextRunnable returns the first not-finished task other than me, searching
// cyclically from start; -1 if there is none.
//
//go:norace
func nextRunnable(me, start int) int {
	if pickSeed != 0 && ntasks > 2 {
		start = int(schedRand() % uint64(ntasks))
	}
	for i := 0; i < ntasks; i++ {
		c := (start + i) % ntasks
		if c < 0 {
			c += ntasks
		}
		if c != me && !tasks[c].done {
			return c
		}
	}
	return -1
}

//go:norace
func logSwitch(t *task, to int, site int, kind uint8) {
	stats.Switches++
	stats.ByKind[kind]++
	off := 0
	if t.op != nil {
		off = t.op.Steps
	}
	toSite := tasks[to].parked
	if t.op != nil && tasks[to].op != nil {
		stats.MidOpSwitches++
		if t.op.Obj >= 0 && t.op.Obj == tasks[to].op.Obj {
			stats.SameObjSwitches++
		}
	}
	h := stats.Hash
	for _, x := range [...]uint64{uint64(t.id), uint64(to), uint64(int64(site)), uint64(int64(toSite)), uint64(t.opIdx), uint64(off), uint64(kind)} {
		h ^= x + 0x9e3779b97f4a7c15
		h *= 1099511628211
	}
	stats.Hash = h
	if nlog < maxLog {
		log[nlog] = SwitchEvent{Step: steps, From: t.id, To: to, FromSite: site, ToSite: toSite, FromOp: t.opIdx, FromOff: off, Kind: kind}
		nlog++
	}
}

//go:norace
func switchFrom(t *task, to int, site int, kind uint8) {
	if to < 0 || to == t.id {
		return
	}
	logSwitch(t, to, site, kind)
	t.parked = site
	t.since = 0
	me := t.id
	g := gen
	cur = to
	for cur != me || gen != g {
		if gen != g {
			parkForever()
		}
		runtime.Gosched()
	}
}

// Yield is called before every statement of the instrumented code.
func Yield(site int) {
	yield(site)
	if timersPending() {
		fireTimers()
	}
}

//go:norace
func yield(site int) {
	if mode == ModeOff {
		return
	}
	steps++
	siteHits[site]++
	var t *task
	if mode == ModeSched {
		t = &tasks[cur]
	} else {
		t = &mainTask
	}
	if hardCap != 0 && steps > hardCap && mode == ModeCount {
		// single-caller runaway (an exponential parse): unwind through the
		// library, which turns the panic into an error; the harness asks CapHit
		if !capHit {
			capHit = true
		}
		panic("verifsim: step cap exceeded")
	}
	if mode == ModeCount && liveKids > 0 {
		// the library has goroutines of its own running next to the single
		// caller: only the global step count is kept while they live
		return
	}
	op := t.op
	if op == nil {
		return
	}
	op.Steps++
	if op.clockIdx < len(op.ClockJumps) {
		applyClockJumps(op)
	}
	if op.RecStores {
		if sites[site].Store && len(op.StoreOffs) < 256 {
			op.StoreOffs = append(op.StoreOffs, op.Steps)
		}
		if sites[site].Sync && len(op.SyncOffs) < 256 {
			op.SyncOffs = append(op.SyncOffs, op.Steps)
		}
	}
	if op.RecSites && len(op.Sites) < 4096 {
		op.Sites = append(op.Sites, site)
	}
	if mode != ModeSched {
		return
	}
	streak = 0
	t.blocked = false
	t.since++
	if hardCap != 0 && steps > hardCap {
		abort("step cap exceeded")
	}
	if t.next < len(t.points) {
		p := &t.points[t.next]
		if p.Op == t.opIdx && p.Off <= op.Steps {
			t.next++
			to := p.To
			if to < 0 || to >= ntasks || to == t.id || tasks[to].done {
				to = nextRunnable(t.id, to)
			}
			switchFrom(t, to, site, 0)
			return
		}
	}
	if quantum > 0 && t.since >= quantum {
		switchFrom(t, nextRunnable(t.id, t.id+1), site, 1)
		return
	}
	if op.Limit > 0 && op.Steps > op.Limit && op.Steps%op.Limit == 0 {
		switchFrom(t, nextRunnable(t.id, t.id+1), site, 4)
	}
}

//go:norace
func abort(reason string) {
	if abortFn != nil {
		abortFn(reason)
	}
	panic("verifsim: " + reason)
}

// blockedYield is called by the modelled blocking primitives when the running
// task cannot proceed.
//
//go:norace
func blockedYield() {
	if mode != ModeSched {
		runtime.Gosched()
		return
	}
	t := &tasks[cur]
	t.blocked = true
	stats.BlockedSpins++
	streak++
	if streak > 64*(ntasks+1) {
		// nobody made progress for many full rounds: every unfinished task is
		// waiting on a modelled primitive held by another parked task.
		if plannedDone() {
			// only goroutines the library started are left and all of them wait
			// for something that will not happen any more: leaked goroutines. The
			// run is over; they stay parked for good.
			leaked += liveKids
			gen++
			cur = -1
			parkForever()
		}
		abort("deadlock")
	}
	to := nextRunnable(t.id, t.id+1)
	if to < 0 {
		abort("deadlock")
	}
	switchFrom(t, to, -2, 3)
}

//go:norace
func plannedDone() bool {
	for i := 0; i < planned; i++ {
		if !tasks[i].done {
			return false
		}
	}
	return true
}

var leaked int

// Leaked reports how many goroutines started by the library were still blocked
// when their run ended (since process start).
//
//go:norace
func Leaked() int { return leaked }

// RunStats returns the counters of the last scheduled run.
//
//go:norace
func RunStats() Stats {
	s := stats
	s.Steps = steps
	return s
}

// Log returns a copy of the switch log of the last run.
//
//go:norace
func Log() []SwitchEvent {
	out := make([]SwitchEvent, nlog)
	copy(out, log[:nlog])
	return out
}

// ---- goroutines spawned by the library itself -----------------------------------
//
// The instrumenter rewrites `go func(...) {...}(...)` so that the parent calls
// ChildSpawn before the go statement and the child calls ChildEnter first and
// ChildExit (deferred) last; `go f(a, b)` becomes Go2(f, a, b). Under the
// scheduler a child is one more task: it runs only when the processor is handed
// to it (round-robin when the parent blocks in a modelled wait or finishes).

// ChildSpawn reserves a task slot for a goroutine the running task is about to
// start. Outside ModeSched it only counts the child as alive.
//
//go:norace
func ChildSpawn() int {
	liveKids++
	spawned++
	if !harness {
		return -2 // no simulator in this process: the goroutine is none of its business
	}
	if mode == ModeOff {
		return -1
	}
	if mode != ModeSched {
		if mainTask.op != nil {
			mainTask.op.noHookFail = true
		}
		return -1
	}
	id := -1
	for i := planned; i < ntasks; i++ {
		if tasks[i].done && tasks[i].started {
			id = i // a goroutine that has finished: its slot is free again
			break
		}
	}
	if id < 0 {
		if ntasks >= maxTasks {
			abort("too many goroutines spawned by the library")
		}
		id = ntasks
		ntasks++
	}
	parent := &tasks[cur]
	tasks[id] = task{id: id, opIdx: 0, parked: -1, parentOp: parent.op, gen: gen}
	if parent.op != nil {
		root := parent.op
		if root.hookParent != nil {
			root = root.hookParent
		}
		root.kids++
		root.noHookFail = true
		tasks[id].op = &OpCtx{Obj: parent.op.Obj, Limit: parent.op.Limit, hookParent: root}
	} else {
		tasks[id].op = &OpCtx{Obj: -1}
	}
	return id
}

// ChildEnter parks the new goroutine until it is scheduled.
//
//go:norace
func ChildEnter(id int) {
	if id < 0 {
		return
	}
	g := tasks[id].gen
	for cur != id || gen != g {
		if gen != g {
			parkForever()
		}
		runtime.Gosched()
	}
	tasks[id].started = true
}

// ChildExit ends a spawned goroutine.
//
//go:norace
func ChildExit(id int) {
	if id != -2 {
		// (also when the pass that started the goroutine is already over)
		// a panic in a goroutine the library started cannot be recovered by the
		// caller and would take the whole process down; the simulator records it
		// on the spawning op instead, as an outcome
		if r := recover(); r != nil {
			msg := "panic in a goroutine started by the library: " + panicText(r)
			if id >= 0 && mode == ModeSched && tasks[id].parentOp != nil {
				tasks[id].parentOp.ChildPanic = msg
			} else if mainTask.op != nil {
				mainTask.op.ChildPanic = msg
			}
		}
	}
	if liveKids > 0 {
		liveKids-- // (a straggler of an earlier pass finds the counter already reset)
	}
	if id < 0 || mode != ModeSched {
		return
	}
	t := &tasks[id]
	if t.gen != gen {
		return // straggler of an earlier run
	}
	if t.op != nil && t.op.hookParent != nil {
		t.op.hookParent.kids--
	}
	t.done = true
	to := nextRunnable(id, id+1)
	if to < 0 {
		cur = -1
		return
	}
	logSwitch(t, to, -1, 2)
	cur = to
}

// Go0..Go3 replace `go f(args)` for named functions and method values without
// results: the arguments are evaluated by the parent, as the go statement does.
func Go0(f func()) {
	id := ChildSpawn()
	go func() { ChildEnter(id); defer ChildExit(id); f() }()
}

func Go1[A any](f func(A), a A) {
	id := ChildSpawn()
	go func() { ChildEnter(id); defer ChildExit(id); f(a) }()
}

func Go2[A, B any](f func(A, B), a A, b B) {
	id := ChildSpawn()
	go func() { ChildEnter(id); defer ChildExit(id); f(a, b) }()
}

func Go3[A, B, C any](f func(A, B, C), a A, b B, c C) {
	id := ChildSpawn()
	go func() { ChildEnter(id); defer ChildExit(id); f(a, b, c) }()
}

//go:norace
func schedActive() bool { return mode == ModeSched }

type waitFlag struct{ done bool }

//go:norace
func (w *waitFlag) set() { w.done = true }

//go:norace
func (w *waitFlag) get() bool { return w.done }

// WaitGroupWait models (*sync.WaitGroup).Wait: the waiting task hands the
// processor on until the real Wait would return, then calls the real Wait
// itself so that the race detector sees the Done -> Wait edges in the right
// goroutine.
func WaitGroupWait(wait func()) {
	if !schedActive() {
		wait()
		return
	}
	w := &waitFlag{}
	go func() {
		wait()
		w.set()
	}()
	for !w.get() {
		waitYield()
	}
	wait()
}

// waitYield hands the processor to another runnable task if there is one;
// otherwise it only lets the runtime schedule the helper goroutine.
//
//go:norace
func waitYield() {
	t := &tasks[cur]
	to := nextRunnable(t.id, t.id+1)
	if to < 0 {
		runtime.Gosched()
		return
	}
	t.blocked = true
	stats.BlockedSpins++
	switchFrom(t, to, -2, 3)
}

// WaitChildren is called by the harness after the planned tasks have finished:
// goroutines the library started and nobody waited for are run to completion.
//
//go:norace
func WaitChildren() {
	g := gen
	for i := 0; i < 1000000 && liveKids > 0 && gen == g; i++ {
		runtime.Gosched()
	}
}

func panicText(r interface{}) string {
	switch x := r.(type) {
	case error:
		return x.Error()
	case string:
		return x
	}
	return "non-string panic value"
}
