package verifsim

import (
	"math/rand"
	"time"
)

// ---- clock seam -------------------------------------------------------------------
//
// The instrumenter rewrites time.Now / time.Since / time.Until / time.Sleep inside
// the library. Under the simulator the clock is logical: it starts at a fixed
// instant, advances one microsecond per executed statement, and jumps when the
// running op's ClockJumps say so (clock skew and jumps are faults like any
// other). With the simulator off the real clock is used.

// ClockJump moves the simulated clock by Delta once the op has executed At steps.
type ClockJump struct {
	At    int           `json:"at"`
	Delta time.Duration `json:"delta"`
}

var (
	clockBase = time.Date(2026, 1, 1, 0, 0, 0, 0, time.UTC)
	clockOff  time.Duration
)

//go:norace
func clockReset() {
	clockOff = 0
	timersReset()
}

//go:norace
func simNow() time.Time {
	if op := curTask().op; op != nil {
		op.ClockReads++
	}
	return clockBase.Add(time.Duration(steps)*time.Microsecond + clockOff)
}

// Now replaces time.Now.
func Now() time.Time {
	if !simOn() {
		return time.Now()
	}
	return simNow()
}

// Since replaces time.Since.
func Since(t time.Time) time.Duration {
	if !simOn() {
		return time.Since(t)
	}
	return simNow().Sub(t)
}

// Until replaces time.Until.
func Until(t time.Time) time.Duration {
	if !simOn() {
		return time.Until(t)
	}
	return t.Sub(simNow())
}

// Sleep replaces time.Sleep: simulated time passes, no real time does.
func Sleep(d time.Duration) {
	if !simOn() {
		time.Sleep(d)
		return
	}
	advance(d)
}

//go:norace
func advance(d time.Duration) { clockOff += d }

//go:norace
func simOn() bool { return mode != ModeOff }

//go:norace
func applyClockJumps(op *OpCtx) {
	for op.clockIdx < len(op.ClockJumps) && op.Steps >= op.ClockJumps[op.clockIdx].At {
		clockOff += op.ClockJumps[op.clockIdx].Delta
		op.clockIdx++
	}
}

// ---- randomness seam -----------------------------------------------------------------
//
// The top-level functions of math/rand are rewritten to these. Under the
// simulator the stream is a splitmix64 sequence seeded by the running op's
// RandSeed, so a run is repeatable and different seeds can be explored.

var looseRand uint64

//go:norace
func simRand() uint64 {
	var st *uint64
	if op := curTask().op; op != nil {
		op.RandDraws++
		if op.randState == 0 {
			op.randState = op.RandSeed*0x9e3779b97f4a7c15 + 0x1234567
		}
		st = &op.randState
	} else {
		st = &looseRand
	}
	*st += 0x9e3779b97f4a7c15
	z := *st
	z = (z ^ (z >> 30)) * 0xbf58476d1ce4e5b9
	z = (z ^ (z >> 27)) * 0x94d049bb133111eb
	return z ^ (z >> 31)
}

func RandUint64() uint64 {
	if !simOn() {
		return rand.Uint64()
	}
	return simRand()
}

func RandUint32() uint32   { return uint32(RandUint64() >> 32) }
func RandInt63() int64     { return int64(RandUint64() >> 1) }
func RandInt31() int32     { return int32(RandUint64() >> 33) }
func RandInt() int         { return int(uint(RandUint64()) >> 1) }
func RandFloat64() float64 { return float64(RandUint64()>>11) / (1 << 53) }
func RandFloat32() float32 { return float32(RandUint64()>>40) / (1 << 24) }
func RandSeed(int64)       {}

func RandIntn(n int) int {
	if n <= 0 {
		panic("invalid argument to Intn")
	}
	return int(RandUint64() % uint64(n))
}

func RandInt63n(n int64) int64 {
	if n <= 0 {
		panic("invalid argument to Int63n")
	}
	return int64(RandUint64() % uint64(n))
}

func RandInt31n(n int32) int32 {
	if n <= 0 {
		panic("invalid argument to Int31n")
	}
	return int32(RandUint64() % uint64(n))
}

func RandPerm(n int) []int {
	p := make([]int, n)
	for i := range p {
		p[i] = i
	}
	RandShuffle(n, func(i, j int) { p[i], p[j] = p[j], p[i] })
	return p
}

func RandShuffle(n int, swap func(i, j int)) {
	for i := n - 1; i > 0; i-- {
		swap(i, RandIntn(i+1))
	}
}

// ---- timers ------------------------------------------------------------------------
//
// time.AfterFunc inside the library becomes verifsim.AfterFunc. Under the
// simulator a timer is an entry in a small table; when the simulated clock has
// passed its deadline the callback runs at the next yield point, on the
// goroutine of whichever task is running (timers have no goroutine of their
// own here). A timer that has not fired when the run ends is dropped.

type Timer struct {
	C        <-chan time.Time // NewTimer
	real     *time.Timer
	deadline time.Time
	f        func()
	active   bool
}

const maxTimers = 64

var (
	timers  [maxTimers]*Timer
	nTimers int
)

// AfterFunc replaces time.AfterFunc.
func AfterFunc(d time.Duration, f func()) *Timer {
	if !simOn() {
		return &Timer{real: time.AfterFunc(d, f)}
	}
	t := &Timer{deadline: simNow().Add(d), f: f, active: true}
	addTimer(t)
	return t
}

//go:norace
func addTimer(t *Timer) {
	for i := range timers {
		if timers[i] == nil {
			timers[i] = t
			nTimers++
			return
		}
	}
}

//go:norace
func dropTimer(t *Timer) {
	for i := range timers {
		if timers[i] == t {
			timers[i] = nil
			nTimers--
			return
		}
	}
}

// Stop replaces (*time.Timer).Stop.
func (t *Timer) Stop() bool {
	if t.real != nil {
		return t.real.Stop()
	}
	return t.stop()
}

//go:norace
func (t *Timer) stop() bool {
	was := t.active
	t.active = false
	dropTimer(t)
	return was
}

// Reset replaces (*time.Timer).Reset.
func (t *Timer) Reset(d time.Duration) bool {
	if t.real != nil {
		return t.real.Reset(d)
	}
	was := t.stop()
	t.deadline = simNow().Add(d)
	t.active = true
	addTimer(t)
	return was
}

//go:norace
func dueTimer() *Timer {
	now := clockBase.Add(time.Duration(steps)*time.Microsecond + clockOff)
	for i := range timers {
		if t := timers[i]; t != nil && t.active && !now.Before(t.deadline) {
			t.active = false
			timers[i] = nil
			nTimers--
			return t
		}
	}
	return nil
}

// fireTimers runs the callbacks of all timers that are due.
func fireTimers() {
	for {
		t := dueTimer()
		if t == nil {
			return
		}
		t.f()
	}
}

//go:norace
func timersPending() bool { return nTimers > 0 }

//go:norace
func timersReset() {
	for i := range timers {
		timers[i] = nil
	}
	nTimers = 0
}

// NewTimer replaces time.NewTimer: under the simulator the channel is fed when
// the simulated clock passes the deadline.
func NewTimer(d time.Duration) *Timer {
	if !simOn() {
		t := time.NewTimer(d)
		return &Timer{real: t, C: t.C}
	}
	ch := make(chan time.Time, 1)
	t := &Timer{deadline: simNow().Add(d), active: true, C: ch}
	t.f = func() {
		select {
		case ch <- t.deadline:
		default:
		}
	}
	addTimer(t)
	return t
}

// After replaces time.After.
func After(d time.Duration) <-chan time.Time {
	if !simOn() {
		return time.After(d)
	}
	return NewTimer(d).C
}
