module verif.local/verif

go 1.23

require (
	github.com/hashicorp/go-bexpr v0.0.0
	golang.org/x/tools v0.29.0
	verif.local/verifsim v0.0.0
)

require (
	github.com/mitchellh/mapstructure v1.4.1 // indirect
	github.com/mitchellh/pointerstructure v1.2.1 // indirect
	golang.org/x/mod v0.22.0 // indirect
	golang.org/x/sync v0.10.0 // indirect
)

replace github.com/hashicorp/go-bexpr => /repo

replace verif.local/verifsim => ./sim/verifsim
