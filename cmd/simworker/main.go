// simworker is the harness binary: built by vcheck against an instrumented
// scratch copy of go-bexpr (plain and -race), and against the untouched sources
// for the uncontrolled-order probe. It prints one JSON document per line.
package main

import (
	"bufio"
	"encoding/json"
	"flag"
	"fmt"
	"os"
	"time"

	"verif.local/verif/simlib/engine"
)

var out = bufio.NewWriterSize(os.Stdout, 1<<16)

func emit(v interface{}) {
	b, err := json.Marshal(v)
	if err != nil {
		fmt.Fprintln(os.Stderr, "marshal:", err)
		os.Exit(2)
	}
	out.Write(b)
	out.WriteByte('\n')
	out.Flush()
}

func main() {
	if len(os.Args) < 2 {
		fmt.Fprintln(os.Stderr, "usage: simworker <command> [flags]")
		os.Exit(2)
	}
	cmd := os.Args[1]
	fs := flag.NewFlagSet(cmd, flag.ExitOnError)
	seed := fs.Uint64("seed", 1, "VERIF_SEED")
	from := fs.Int("from", 0, "first index")
	to := fs.Int("to", 0, "end index (exclusive)")
	stride := fs.Int("stride", 1, "index stride")
	tier := fs.String("tier", "quick", "quick|thorough")
	file := fs.String("file", "", "replay / plan file")
	budget := fs.Duration("time", 0, "wall-clock budget (0: none)")
	k := fs.Int("k", 0, "engine-specific")
	fs.Parse(os.Args[2:])
	deadline := time.Time{}
	if *budget > 0 {
		deadline = time.Now().Add(*budget)
	}
	cfg := engine.WorkerCfg{Seed: *seed, From: *from, To: *to, Stride: *stride, Tier: *tier, File: *file, Deadline: deadline, K: *k, Emit: emit}
	code := engine.Dispatch(cmd, cfg)
	out.Flush()
	os.Exit(code)
}
