package main

import (
	"fmt"
	"os"

	bexpr "github.com/hashicorp/go-bexpr"
	"verif.local/verifsim"
)

func main() {
	verifsim.Reset()
	verifsim.BeginMain()
	ev, err := bexpr.CreateEvaluator(os.Args[1])
	fmt.Println(ev != nil, err, verifsim.Steps(), len(verifsim.Sites()))
}
