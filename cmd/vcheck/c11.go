package main

import (
	"encoding/json"
	"fmt"
	"strconv"
	"time"
)

// checkC11 drives abortsim: every worker process takes an interleaved slice of
// the input index space and enumerates the abort points of each input.
func checkC11(c *checkCtx) int {
	inputs := 144
	timeout := 5 * time.Minute
	soft := "90s"
	if c.Tier == "thorough" {
		inputs = 2400
		timeout = 70 * time.Minute
		soft = "60m"
	}
	nproc := c.Par
	var jobs [][]string
	for w := 0; w < nproc; w++ {
		jobs = append(jobs, []string{"c11", "-seed", strconv.FormatUint(c.Seed, 10), "-from", strconv.Itoa(w), "-to", strconv.Itoa(inputs),
			"-stride", strconv.Itoa(nproc), "-tier", c.Tier, "-time", soft})
	}
	t1 := time.Now()
	runs := runPool(c.S.Plain, jobs, []string{"GOMAXPROCS=1"}, nproc, timeout)
	wall := time.Since(t1).Seconds()

	type sumT struct {
		Inputs     int             `json:"inputs"`
		Budgets    int             `json:"budgets"`
		Aborts     int             `json:"aborts"`
		Exhaustive int             `json:"exhaustive_inputs"`
		Nontrivial int             `json:"nontrivial_inputs"`
		Residue    int             `json:"residue_checks"`
		NoRef      int             `json:"pathological_inputs"`
		Valid      int             `json:"inputs_that_parse"`
		MaxRatio   float64         `json:"max_statements_per_budget_unit"`
		MaxS       uint64          `json:"max_unlimited_steps"`
		Steps      uint64          `json:"statements_executed"`
		BySource   map[string]int  `json:"by_source"`
		Samples    json.RawMessage `json:"samples"`
		Signature  string          `json:"budget_error_signature"`
		EntrySites int             `json:"parse_expr_entry_sites"`
		TwinProbes int             `json:"fresh_twin_probes"`
		Hashes     []uint64        `json:"input_hashes"`
	}
	var tot sumT
	tot.BySource = map[string]int{}
	distinct := map[uint64]bool{}
	var samples []json.RawMessage
	for _, w := range runs {
		if w.ExitCode != 0 {
			c.infraf("%s", describeFailure(w))
			continue
		}
		got := false
		for _, d := range w.Docs {
			switch docType(d) {
			case "violation":
				var v Violation
				json.Unmarshal(mustMarshal(d), &v)
				c.report(v)
			case "summary":
				got = true
				var s sumT
				json.Unmarshal(mustMarshal(d), &s)
				tot.Inputs += s.Inputs
				tot.Budgets += s.Budgets
				tot.Aborts += s.Aborts
				tot.Exhaustive += s.Exhaustive
				tot.Nontrivial += s.Nontrivial
				tot.Residue += s.Residue
				tot.NoRef += s.NoRef
				tot.Valid += s.Valid
				tot.Steps += s.Steps
				tot.TwinProbes += s.TwinProbes
				if s.MaxRatio > tot.MaxRatio {
					tot.MaxRatio = s.MaxRatio
				}
				if s.MaxS > tot.MaxS {
					tot.MaxS = s.MaxS
				}
				for k, n := range s.BySource {
					tot.BySource[k] += n
				}
				tot.Signature = s.Signature
				tot.EntrySites = s.EntrySites
				for _, h := range s.Hashes {
					distinct[h] = true
				}
				if len(samples) < 3 {
					var ss []json.RawMessage
					json.Unmarshal(s.Samples, &ss)
					if len(ss) > 0 {
						samples = append(samples, ss[0])
					}
				}
			}
		}
		if !got {
			c.infraf("worker produced no summary: %s", describeFailure(w))
		}
	}
	// volume phase on the untouched build: a process that has refused tens of
	// thousands of hostile inputs under a budget must still accept harmless ones
	// under the same budget
	// (how many refusals make a process "old" is unknown: the workers use different volumes)
	rejVolumes := []int{60000, 65000, 30000, 120000}
	nOK := 80000
	if c.Tier == "thorough" {
		nOK = 1500000
	}
	volRejected, volAccepted := 0, 0
	if c.S.Pure != "" {
		var vj [][]string
		for w := 0; w < nproc; w++ {
			vj = append(vj, []string{"c11-volume", "-seed", strconv.FormatUint(c.Seed, 10), "-from", strconv.Itoa(w), "-k", strconv.Itoa(rejVolumes[w%len(rejVolumes)]), "-to", strconv.Itoa(nOK)})
		}
		for _, w := range runPool(c.S.Pure, vj, []string{"GOMAXPROCS=1"}, nproc, timeout) {
			if w.ExitCode != 0 {
				c.infraf("%s", describeFailure(w))
				continue
			}
			for _, d := range w.Docs {
				switch docType(d) {
				case "violation":
					var v Violation
					json.Unmarshal(mustMarshal(d), &v)
					c.report(v)
				case "volume-summary":
					var s struct {
						Refused int `json:"hostile_refused"`
						OK      int `json:"harmless_inputs"`
						First   int `json:"first_refused"`
					}
					json.Unmarshal(mustMarshal(d), &s)
					volRejected += s.Refused
					if s.First < 0 {
						volAccepted += s.OK
					} else {
						volAccepted += s.First
					}
				}
			}
		}
	}
	// budgets under concurrent creation (simsched engine, plain build): what other
	// callers parse at the same time must not change the outcome of a budgeted parse
	concPlans := 960
	if c.Tier == "thorough" {
		concPlans = 60000
	}
	agg := newSchedAgg()
	c.runSchedHot("C11", "plain", concPlans, soft, timeout, agg)
	if tot.EntrySites == 0 && len(c.infra) == 0 {
		fmt.Println("note: (*parser).parseExpr not found in the instrumented tree; only the proportional work bound was applied")
	}
	cov := map[string]interface{}{
		"evaluations":         tot.Budgets,
		"distinct_nontrivial": minInt(tot.Nontrivial, len(distinct)),
		"rule":                "an evaluation is one parse of one input under one budget n through one API (grammar.Parse+MaxExpressions or bexpr.CreateEvaluator+WithMaxExpressions); inputs come from the repository's parser tests, seeded grammar derivations over generated data, token-level mutations of those, early-failing inputs with a long unread tail, and nested parentheses of depth 5..16; for inputs whose unlimited parse takes S <= limit steps every n in [1,S+2] is tried (exhaustive_inputs), otherwise n<=64, S+-64, a geometric sweep and seeded samples; distinct_nontrivial counts distinct inputs (by content hash) for which at least one budget abort was actually injected and the threshold was located",
		"samples":             samples,
		"exhaustive":          false,
		"inputs":              tot.Inputs,
		"distinct_inputs":     len(distinct),
		"inputs_with_every_abort_point_enumerated":        tot.Exhaustive,
		"pathological_inputs_without_unlimited_reference": tot.NoRef,
		"inputs_that_parse":                               tot.Valid,
		"inputs_by_source":                                tot.BySource,
		"fault_kinds_fired": map[string]int{
			"parse_budget_abort": tot.Aborts,
			"parse_budget_abort_in_volume_phase_untouched_build": volRejected,
		},
		"volume_phase": map[string]interface{}{"hostile_inputs_refused": volRejected, "harmless_inputs_accepted_afterwards_under_the_same_budget": volAccepted,
			"note": "per worker process, on the untouched build: distinct hostile inputs (ten unmatched parentheses) refused under budget B = 3 x the measured threshold of the harmless template, then distinct harmless inputs that must all parse under B"},
		"residue_checks_after_abort":          tot.Residue,
		"fresh_twin_probes":                   tot.TwinProbes,
		"max_unlimited_steps":                 tot.MaxS,
		"max_statements_per_budget_unit_seen": tot.MaxRatio,
		"simulated_time_steps":                tot.Steps,
		"steps_per_hour":                      float64(tot.Steps) / wall * 3600,
		"runs_per_hour":                       float64(tot.Budgets) / wall * 3600,
		"worker_processes":                    nproc,
		"concurrent_budget_runs": map[string]interface{}{"plans": agg.Plans, "creations": agg.Ops, "switches": agg.Switches, "nontrivial": agg.Nontrivial,
			"note": "2-4 callers create evaluators with budgets around the measured step counts under seeded schedules; every creation must return what it returns sequentially"},
		"budget_error_signature_learned": tot.Signature,
		"parse_expr_entry_sites":         tot.EntrySites,
		"oracles":                        []string{"n=0 equals no option", "dichotomy: unlimited result or nil+max-expressions error", "monotone threshold", "exactness: every budget above the instrumented step count of the unlimited parse is accepted (one spare step allowed)", "parseExpr entries <= n+1 (instrumented count, not the library's ExprCnt)", "statements <= 400*(n+1)+20000", "no residue after abort (same and other input)", "under concurrent creation every budgeted parse returns what it returns sequentially"},
	}
	c.writeEvidence("fault_enumeration", cov, []string{
		"inputs are sampled, abort points per input are enumerated",
		"a parser step is an entry of (*parser).parseExpr, counted by instrumentation of the current tree",
		"the max-expressions error is recognised by the text the current tree produces for budget 1 on a calibration input",
		"the threshold N may exceed the instrumented step count S of the unlimited parse by at most one (a >= comparison); a larger gap is reported as budget-not-exact",
	})
	return c.exitCode()
}

func minInt(a, b int) int {
	if a < b {
		return a
	}
	return b
}
