package main

import (
	"bufio"
	"bytes"
	"context"
	"encoding/json"
	"fmt"
	"os"
	"os/exec"
	"strings"
	"sync"
	"time"
)

// WorkerRun is what one worker process produced.
type WorkerRun struct {
	Args     []string
	Docs     []map[string]json.RawMessage
	Raw      []string
	Stderr   string
	ExitCode int
	TimedOut bool
	Wall     float64
}

func docType(d map[string]json.RawMessage) string {
	var t string
	json.Unmarshal(d["type"], &t)
	return t
}

// runWorker executes one worker process to completion (or timeout).
func runWorker(bin string, args []string, extraEnv []string, timeout time.Duration) WorkerRun {
	ctx, cancel := context.WithTimeout(context.Background(), timeout)
	defer cancel()
	cmd := exec.CommandContext(ctx, bin, args...)
	cmd.Env = append(os.Environ(), extraEnv...)
	var stderr bytes.Buffer
	cmd.Stderr = &stderr
	stdout, err := cmd.StdoutPipe()
	wr := WorkerRun{Args: args}
	if err != nil {
		wr.ExitCode = 2
		wr.Stderr = err.Error()
		return wr
	}
	t0 := time.Now()
	if err := cmd.Start(); err != nil {
		wr.ExitCode = 2
		wr.Stderr = err.Error()
		return wr
	}
	sc := bufio.NewScanner(stdout)
	sc.Buffer(make([]byte, 1<<20), 1<<28)
	for sc.Scan() {
		line := sc.Text()
		wr.Raw = append(wr.Raw, line)
		var d map[string]json.RawMessage
		if json.Unmarshal([]byte(line), &d) == nil {
			wr.Docs = append(wr.Docs, d)
		}
	}
	err = cmd.Wait()
	wr.Wall = time.Since(t0).Seconds()
	wr.Stderr = stderr.String()
	if ctx.Err() == context.DeadlineExceeded {
		wr.TimedOut = true
		wr.ExitCode = 2
		return wr
	}
	if err != nil {
		if ee, ok := err.(*exec.ExitError); ok {
			wr.ExitCode = ee.ExitCode()
		} else {
			wr.ExitCode = 2
		}
	}
	return wr
}

// runPool runs jobs on up to par processes at a time.
func runPool(bin string, jobs [][]string, extraEnv []string, par int, timeout time.Duration) []WorkerRun {
	out := make([]WorkerRun, len(jobs))
	sem := make(chan struct{}, par)
	var wg sync.WaitGroup
	for i, j := range jobs {
		wg.Add(1)
		sem <- struct{}{}
		go func(i int, j []string) {
			defer wg.Done()
			defer func() { <-sem }()
			out[i] = runWorker(bin, j, extraEnv, timeout)
		}(i, j)
	}
	wg.Wait()
	return out
}

func describeFailure(w WorkerRun) string {
	what := fmt.Sprintf("exit %d", w.ExitCode)
	if w.TimedOut {
		what = "watchdog timeout"
	}
	return fmt.Sprintf("worker %s: %s\n%s", strings.Join(w.Args, " "), what, tail(w.Stderr, 3000))
}
