// vcheck is the driver of the deterministic-simulation checks for go-bexpr.
package main

import (
	"fmt"
	"os"
	"path/filepath"
	"time"
)

func main() {
	installSignalCleanup()
	code := realMain(os.Args[1:])
	cleanupAll()
	os.Exit(code)
}

func usage() int {
	fmt.Fprintln(os.Stderr, "usage: vcheck warmup | check <id> [--tier quick|thorough] [--seed N] | replay <file> | selftest | prepare [--keep]")
	return 2
}

func realMain(args []string) int {
	if len(args) == 0 {
		return usage()
	}
	switch args[0] {
	case "warmup":
		// populate the build cache (std under -race, x/tools) so that checks are fast
		s, err := prepare(prepOpts{race: true, pure: true})
		if err != nil {
			fmt.Fprintln(os.Stderr, "warmup failed:", err)
			return 2
		}
		fmt.Printf("warmup ok: %v\n", s.Timing)
		return 0
	case "prepare":
		s, err := prepare(prepOpts{race: true, pure: true, fidelity: true})
		if err != nil {
			fmt.Fprintln(os.Stderr, "prepare failed:", err)
			return 2
		}
		fmt.Printf("scratch=%s sites=%d store=%d timing=%v\n", s.Dir, s.Report.NSites, s.Report.NStore, s.Timing)
		fmt.Println("order seams:", s.Report.OrderSeams)
		fmt.Println("unseamed:", s.Report.Unseamed, "unmodelled:", s.Report.Unmodelled, "modelled:", s.Report.Modelled)
		if len(args) > 1 && args[1] == "--keep" {
			cleanupMu.Lock()
			cleanupDir = nil
			cleanupMu.Unlock()
		}
		return 0
	case "check":
		return runCheck(args[1:])
	case "replay":
		if len(args) < 2 {
			return usage()
		}
		return runReplay(args[1])
	case "selftest":
		return runSelftest(args[1:])
	}
	return usage()
}

// runReplay rebuilds from the current tree and re-executes one replay file in
// a fresh process: exit 1 + VIOLATION line if it reproduces, 0 if not.
func runReplay(path string) int {
	v, err := readReplay(path)
	if err != nil {
		fmt.Fprintln(os.Stderr, "cannot read replay file:", err)
		return 2
	}
	abs, _ := filepath.Abs(path)
	c := &checkCtx{ID: v.Property, Tier: "quick", Seed: v.Seed, Root: verifRoot(), T0: time.Now()}
	s, err := prepare(prepOpts{race: true, pure: true})
	if err != nil {
		fmt.Fprintln(os.Stderr, "INFRA: cannot build the instrumented copy / workers:", err)
		return 2
	}
	c.S = s
	defer s.Remove()
	ok, info := c.confirm(v)
	fmt.Println(tail(info, 8000))
	if ok {
		fmt.Printf("VIOLATION property=%s replay=%s\n", v.Property, abs)
		fmt.Printf("  kind=%s key=%s\n  %s\n", v.Kind, v.Key, v.Detail)
		return 1
	}
	fmt.Printf("replay of %s did not reproduce the violation on the current tree\n", abs)
	return 0
}
