package main

import (
	"fmt"
	"os"
)

func main() {
	installSignalCleanup()
	code := realMain(os.Args[1:])
	cleanupAll()
	os.Exit(code)
}

func realMain(args []string) int {
	if len(args) == 0 {
		fmt.Fprintln(os.Stderr, "usage: vcheck warmup | check <id> [--tier quick|thorough] | replay <file> | selftest | prepare")
		return 2
	}
	switch args[0] {
	case "prepare":
		s, err := prepare(prepOpts{race: true, pure: true, fidelity: true})
		if err != nil {
			fmt.Fprintln(os.Stderr, "prepare failed:", err)
			return 2
		}
		fmt.Printf("scratch=%s sites=%d store=%d timing=%v\n", s.Dir, s.Report.NSites, s.Report.NStore, s.Timing)
		fmt.Println("order seams:", s.Report.OrderSeams)
		fmt.Println("unseamed:", s.Report.Unseamed, "unmodelled:", s.Report.Unmodelled)
		if len(args) > 1 && args[1] == "--keep" {
			cleanupMu.Lock()
			cleanupDir = nil
			cleanupMu.Unlock()
		}
		return 0
	}
	return 2
}
