package main

import (
	"encoding/json"
	"strconv"
	"time"
	"verif.local/verif/simlib/engine"
)

func schedCoverage(a *schedAgg, wall float64, conc bool) map[string]interface{} {
	cov := map[string]interface{}{
		"evaluations":          a.Plans,
		"distinct_nontrivial":  len(a.distinctNT),
		"samples":              a.Samples,
		"exhaustive":           false,
		"plans":                a.Plans,
		"operations":           a.Ops,
		"nontrivial_runs":      a.Nontrivial,
		"distinct_runs":        len(a.distinctAll),
		"plans_by_callers":     a.ByK,
		"ops_errored":          a.Errored,
		"evaluations_true":     a.True,
		"evaluations_false":    a.False,
		"ops_panicked":         a.Panicked,
		"simulated_time_steps": a.Steps,
		"steps_per_hour":       float64(a.Steps) / wall * 3600,
		"runs_per_hour":        float64(a.Plans) / wall * 3600,
		"aborted_runs":         a.Aborts,
	}
	faults := map[string]int{
		"hook_failure_inside_operation":         a.HookFired,
		"map_order_permutation":                 a.OrderDec,
		"clock_jump_inside_operation":           a.Jumps,
		"caller_edits_returned_container":       a.Scribbles,
		"goroutines_started_by_the_library":     a.LibGo,
		"channel_operations_inside_the_library": a.LibChan,
	}
	cov["library_concurrency_note"] = "goroutines, channels, timers and processor-count queries inside go-bexpr are modelled (see instrumentation.modelled_blocking_sites); the unchanged library has none, so these fault kinds fire only on changed trees"
	if conc {
		faults["preemption_at_change_point"] = a.ByKind[0]
		faults["preemption_by_quantum"] = a.ByKind[1]
		faults["handoff_at_caller_finish"] = a.ByKind[2]
		faults["handoff_because_blocked_on_lock"] = a.ByKind[3]
		faults["forced_fairness_switch"] = a.ByKind[4]
		cov["switches"] = a.Switches
		cov["switches_while_two_callers_inside_ops_on_the_same_object"] = a.SameObj
		cov["switches_while_two_callers_inside_ops"] = a.MidOp
		cov["plans_by_policy"] = a.ByPolicy
		cov["distinct_cross_task_site_pairs_adjacent_at_a_switch"] = len(a.sitePairs)
	} else {
		faults["caller_side_mutation"] = a.Mutates
		faults["forced_gc"] = a.GCs
	}
	cov["in_process_workers_aged_before_exploring"] = a.Aged
	cov["fault_kinds_fired"] = faults
	return cov
}

// checkC12 drives simsched with k >= 2 callers: the logic oracle on the plain
// build (generated and executed in-process for throughput), then cold runs of
// freshly generated plans on the -race build and on the plain build.
func checkC12(c *checkCtx) int {
	hot, coldRace, coldPlain, chunk, firstUse := 3200, 640, 480, 8, 1600
	soft := "60s"
	timeout := 6 * time.Minute
	if c.Tier == "thorough" {
		hot, coldRace, coldPlain, chunk, firstUse = 400000, 20000, 16000, 10, 60000
		soft = "10m"
		timeout = 90 * time.Minute
	}
	t1 := time.Now()
	agg := newSchedAgg()
	c.runSchedHot("C12", "plain", hot, soft, timeout, agg)
	hotPlans := agg.Plans
	c.runSchedCold("C12", "race", 0, coldRace, chunk, timeout, agg)
	racePlans := agg.Plans - hotPlans
	c.runSchedCold("C12", "plain", coldRace, coldPlain, chunk, timeout, agg)
	// first-use phase: hammer-shaped plans only (every caller makes the same calls
	// on one shared object), each in a fresh process, so that whatever the calls
	// do on first use in a process - grow a package-level table, fill a cache -
	// is done by several callers at once
	beforeFirst := agg.Plans
	c.runSchedCold("C12", "plain", engine.FirstUseBase, firstUse, chunk, timeout, agg)
	// ... and on the race build: an unsynchronised first write is a race report
	// only in the process where it is the first
	c.runSchedCold("C12", "race", engine.FirstUseBase+firstUse, firstUse/2, chunk, timeout, agg)
	firstUsePlans := agg.Plans - beforeFirst
	wall := time.Since(t1).Seconds()
	cov := schedCoverage(agg, wall, true)
	cov["rule"] = "an evaluation is one simulated run: k in 2..4 caller goroutines executing seeded operations (Evaluate, Execute, Expression, CreateEvaluator/CreateFilter) on 1-3 shared evaluators/filters and shared data under one seeded schedule (back-to-back, PCT-style change points per operation, store-window bias, dense first-use, round-robin quantum, lockstep); a run is non-trivial when at least one switch landed while two callers were inside operations on the same shared object; distinct_nontrivial counts distinct (plan, interleaving id) pairs among those, the interleaving id being the hash of every switch event (from, to, sites, op, offset)"
	cov["runs_on_plain_build_in_process"] = hotPlans
	cov["runs_on_race_build_cold"] = racePlans
	cov["runs_on_plain_build_cold"] = agg.Plans - hotPlans - racePlans
	cov["first_use_runs_each_in_a_fresh_process"] = firstUsePlans
	cov["fresh_worker_processes_for_cold_runs"] = agg.ColdProcs
	cov["cold_runs_with_a_process_of_their_own"] = agg.SoloProcs
	cov["oracles"] = []string{"every concurrent call returns what the sequential reference returns (boolean, error text, Execute result, Expression string, creation outcome)", "no ThreadSanitizer report on the -race build (handoffs are invisible to it, so only the library's own synchronisation counts)", "shared data fingerprints (incl. spare capacity) unchanged across the run", "no deadlock on modelled locks", "cold runs: the concurrent run and the sequential run that follows it fall into the outcome classes recorded by the purely sequential generating process (damage that outlives the objects)"}
	c.writeEvidence("exploration", cov, []string{
		"schedules are sampled (seeded), not enumerated; preemption is at statement granularity inside go-bexpr's two packages only",
		"the race verdict is ThreadSanitizer's happens-before verdict for the accesses executed; both accesses must fall inside its history window (runs are kept short)",
		"in-process runs have warmed package-level state; cold runs (fresh process, concurrent run first) cover first use",
	})
	return c.exitCode()
}

// checkC13 drives simsched with one caller and long histories.
func checkC13(c *checkCtx) int {
	n := 4800
	soft := "60s"
	timeout := 6 * time.Minute
	if c.Tier == "thorough" {
		n = 600000
		soft = "20m"
		timeout = 60 * time.Minute
	}
	t1 := time.Now()
	agg := newSchedAgg()
	c.runSchedHot("C13", "plain", n, soft, timeout, agg)
	// volume phase on the untouched build: a long-lived object against a young one
	// over a stream of distinct data
	stream := 2000000
	if c.Tier == "thorough" {
		stream = 30000000
	}
	volCalls := 0
	if c.S.Pure != "" {
		var vj [][]string
		for w := 0; w < c.Par; w++ {
			vj = append(vj, []string{"c13-volume", "-seed", strconv.FormatUint(c.Seed, 10), "-from", strconv.Itoa(w), "-to", strconv.Itoa(stream)})
		}
		for _, w := range runPool(c.S.Pure, vj, []string{"GOMAXPROCS=1"}, c.Par, timeout) {
			if w.ExitCode != 0 {
				c.infraf("%s", describeFailure(w))
				continue
			}
			for _, d := range w.Docs {
				switch docType(d) {
				case "violation":
					var v Violation
					json.Unmarshal(mustMarshal(d), &v)
					c.report(v)
				case "volume-summary":
					var s struct {
						Calls int `json:"calls"`
					}
					json.Unmarshal(mustMarshal(d), &s)
					volCalls += s.Calls
				}
			}
		}
	}
	wall := time.Since(t1).Seconds()
	cov := schedCoverage(agg, wall, false)
	cov["rule"] = "an evaluation is one history: a single caller executing 5-40 seeded operations (Evaluate, Execute, Expression, create, caller-side in-place mutation of a datum, forced GC) over 1-3 long-lived evaluators/filters, with the hook failing on its j-th invocation inside some operations; a history is non-trivial when some object is called again after it has seen an erroring/panicking/faulted call, a caller-side mutation, or a different datum; distinct_nontrivial counts distinct such histories by plan hash"
	cov["volume_phase"] = map[string]interface{}{"calls_on_the_untouched_build": volCalls, "note": "per worker process four streams of distinct data (log lines of 70 bytes, names, tag lists, small record lists; 2 000 000 / 30 000 000 data for the first stream, a sixteenth of that for the others) are evaluated by a long-lived object and by one recreated every 257 calls; the two must agree on every datum"}
	cov["oracles"] = []string{"every operation returns what a freshly created object returns on a pristine rebuild of the datum as the caller last left it (same order tape and hook countdown; boolean, error text, Execute result)", "deep fingerprint of the datum (values, pointer topology, slice contents up to capacity, unexported fields) unchanged by every Evaluate/Execute", "Expression() equals the creation string byte for byte at every point of the history"}
	c.writeEvidence("exploration", cov, []string{
		"histories are sampled (seeded)",
		"the reference for what a call should return is a freshly created object of the current tree",
		"hook panics are not injected: the library promises nothing about them",
	})
	return c.exitCode()
}
