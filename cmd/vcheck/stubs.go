package main

func checkC12(c *checkCtx) int { c.infraf("C12 engine not built yet"); return 2 }
func checkC13(c *checkCtx) int { c.infraf("C13 engine not built yet"); return 2 }
