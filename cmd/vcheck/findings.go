package main

import (
	"encoding/json"
	"fmt"
	"hash/fnv"
	"os"
	"path/filepath"
	"strings"
)

// Violation mirrors engine.Violation.
type Violation struct {
	Type     string          `json:"type"`
	Property string          `json:"property"`
	Engine   string          `json:"engine"`
	Kind     string          `json:"kind"`
	Key      string          `json:"key"`
	Detail   string          `json:"detail"`
	Seed     uint64          `json:"seed"`
	Index    int             `json:"index"`
	Replay   json.RawMessage `json:"replay"`
}

// Finding is one line of known_findings.txt:
//
//	known: property=<id> key=<substring of a violation key> <description>
//	fixed: property=<id> <commit> <what failed>
//
// A known entry turns a matching violation into a KNOWN-FINDING line; a fixed
// entry suppresses nothing.
type Finding struct {
	Property string
	Key      string
	Text     string
}

func loadKnown(root string) []Finding {
	b, err := os.ReadFile(filepath.Join(root, "known_findings.txt"))
	if err != nil {
		return nil
	}
	var out []Finding
	for _, line := range strings.Split(string(b), "\n") {
		line = strings.TrimSpace(line)
		if !strings.HasPrefix(line, "known:") {
			continue
		}
		f := Finding{Text: strings.TrimSpace(strings.TrimPrefix(line, "known:"))}
		for _, w := range strings.Fields(f.Text) {
			if strings.HasPrefix(w, "property=") {
				f.Property = strings.TrimPrefix(w, "property=")
			}
			if strings.HasPrefix(w, "key=") {
				f.Key = strings.TrimPrefix(w, "key=")
			}
		}
		if f.Property != "" && f.Key != "" {
			// keep only the description for the KNOWN-FINDING line
			var words []string
			for _, w := range strings.Fields(f.Text) {
				if !strings.HasPrefix(w, "property=") {
					words = append(words, w)
				}
			}
			f.Text = strings.Join(words, " ")
			out = append(out, f)
		}
	}
	return out
}

func matchKnown(known []Finding, v Violation) *Finding {
	for i := range known {
		if known[i].Property == v.Property && strings.Contains(v.Key, known[i].Key) {
			return &known[i]
		}
	}
	return nil
}

func replayPath(root string, v Violation) string {
	h := fnv.New32a()
	h.Write(v.Replay)
	name := fmt.Sprintf("%s-%s-%08x.json", v.Property, sanitize(v.Kind), h.Sum32())
	dir := filepath.Join(root, "replays")
	if d := os.Getenv("VERIF_REPLAY_DIR"); d != "" {
		dir = d
	}
	return filepath.Join(dir, name)
}

func sanitize(s string) string {
	var b strings.Builder
	for _, c := range s {
		if (c >= 'a' && c <= 'z') || (c >= 'A' && c <= 'Z') || (c >= '0' && c <= '9') || c == '-' {
			b.WriteRune(c)
		} else {
			b.WriteByte('_')
		}
	}
	return b.String()
}

// writeReplay stores the violation envelope (the replay document travels
// inside it) and returns the path.
func writeReplay(root string, v Violation) (string, error) {
	p := replayPath(root, v)
	return p, writeJSON(p, v)
}

func readReplay(path string) (Violation, error) {
	var v Violation
	b, err := os.ReadFile(path)
	if err != nil {
		return v, err
	}
	err = json.Unmarshal(b, &v)
	return v, err
}
