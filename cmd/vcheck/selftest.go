package main

import (
	"encoding/json"
	"fmt"
	"hash/fnv"
	"os"
	"path/filepath"
	"strconv"
	"strings"
	"time"
)

// digestDocs hashes the documents of the given types of one worker run.
func digestDocs(w WorkerRun, types ...string) (uint64, int) {
	h := fnv.New64a()
	n := 0
	for i, d := range w.Docs {
		t := docType(d)
		for _, want := range types {
			if t == want {
				h.Write([]byte(w.Raw[i]))
				h.Write([]byte{'\n'})
				n++
			}
		}
	}
	return h.Sum64(), n
}

// runSelftest proves determinism: the same seeds executed in fresh processes at
// GOMAXPROCS 1, 4 and 16, on the plain and the race build, must produce
// byte-identical result documents (outcomes, step counts, switch-log hashes).
func runSelftest(args []string) int {
	seeds := 6
	if len(args) > 0 {
		if n, err := strconv.Atoi(args[0]); err == nil {
			seeds = n
		}
	}
	s, err := prepare(prepOpts{race: true, pure: false, fidelity: true})
	if err != nil {
		fmt.Fprintln(os.Stderr, "INFRA:", err)
		return 2
	}
	defer s.Remove()
	bad := 0
	procs := []string{"1", "4", "16"}
	type cfg struct {
		name  string
		bin   string
		args  []string
		types []string
		env   []string
	}
	total := 0
	for sd := 0; sd < seeds; sd++ {
		seed := strconv.FormatUint(uint64(1000+sd*7919), 10)
		// plans for the concurrent engine are generated once, then executed everywhere
		g := runWorker(s.Plain, []string{"sched-gen", "-k", "12", "-seed", seed, "-from", "0", "-to", "40"}, []string{"GOMAXPROCS=1"}, 5*time.Minute)
		var b strings.Builder
		for _, d := range g.Docs {
			if docType(d) == "plan" {
				b.Write(d["plan"])
				b.WriteByte('\n')
			}
		}
		pf := filepath.Join(s.Dir, "selftest-"+seed+".jsonl")
		os.WriteFile(pf, []byte(b.String()), 0o644)
		cfgs := []cfg{
			{"C11 abortsim", s.Plain, []string{"c11", "-seed", seed, "-from", "70", "-to", "82"}, []string{"summary", "violation"}, nil},
			{"C14 ordersim", s.Plain, []string{"c14", "-seed", seed, "-from", "0", "-to", "120", "-k", "5"}, []string{"summary", "violation"}, nil},
			{"C13 simsched k=1", s.Plain, []string{"sched-genexec", "-k", "13", "-seed", seed, "-from", "0", "-to", "40"}, []string{"result", "violation"}, nil},
			{"C12 simsched gen", s.Plain, []string{"sched-gen", "-k", "12", "-seed", seed, "-from", "0", "-to", "40"}, []string{"plan"}, nil},
			{"C12 simsched plain", s.Plain, []string{"sched-exec", "-file", pf}, []string{"result", "violation"}, nil},
			{"C12 simsched race", s.Race, []string{"sched-exec", "-file", pf}, []string{"result", "violation"}, []string{"GORACE=halt_on_error=1 exitcode=66"}},
		}
		for _, c := range cfgs {
			var ref uint64
			var refN int
			first := true
			for _, gp := range procs {
				for rep := 0; rep < 2; rep++ {
					w := runWorker(c.bin, c.args, append([]string{"GOMAXPROCS=" + gp}, c.env...), 10*time.Minute)
					total++
					if w.ExitCode != 0 {
						fmt.Printf("SELFTEST-FAIL %s seed=%s GOMAXPROCS=%s: %s\n", c.name, seed, gp, describeFailure(w))
						bad++
						continue
					}
					d, n := digestDocs(w, c.types...)
					if first {
						ref, refN, first = d, n, false
						continue
					}
					if d != ref || n != refN {
						fmt.Printf("SELFTEST-FAIL %s seed=%s GOMAXPROCS=%s run %d: digest %x (%d docs) != %x (%d docs)\n", c.name, seed, gp, rep, d, n, ref, refN)
						bad++
					}
				}
			}
		}
	}
	res := map[string]interface{}{"seeds": seeds, "process_runs": total, "gomaxprocs": procs, "mismatches": bad, "at": time.Now().UTC().Format(time.RFC3339)}
	b, _ := json.Marshal(res)
	fmt.Println(string(b))
	writeJSON(filepath.Join(verifRoot(), "evidence", "selftest.json"), res)
	if bad > 0 {
		fmt.Println("determinism self-test FAILED: verdicts of the simulation engines must not be believed")
		return 2
	}
	fmt.Println("determinism self-test passed")
	return 0
}
