package main

import (
	"encoding/json"
	"fmt"
	"os"
	"path/filepath"
	"strconv"
	"strings"
	"time"

	"verif.local/verif/simlib/plan"
)

// schedAgg aggregates the per-plan result documents of the simsched workers.
type schedAgg struct {
	Plans       int
	Ops         int
	Steps       uint64
	Switches    int
	ByKind      [5]int
	SameObj     int
	MidOp       int
	Blocked     int
	Nontrivial  int
	HookFired   int
	Mutates     int
	GCs         int
	Jumps       int
	LibGo       int
	LibChan     int
	Scribbles   int
	Errored     int
	True        int
	False       int
	Panicked    int
	OrderDec    int
	ByPolicy    map[string]int
	ByK         map[string]int
	distinctNT  map[uint64]bool
	distinctAll map[uint64]bool
	sitePairs   map[uint64]bool
	Samples     []json.RawMessage
	Aborts      []string
	SoloProcs   int
	ColdProcs   int
	Aged        int // worker processes that were aged (see engine.AgeProcess) before exploring
}

func newSchedAgg() *schedAgg {
	return &schedAgg{ByPolicy: map[string]int{}, ByK: map[string]int{}, distinctNT: map[uint64]bool{}, distinctAll: map[uint64]bool{}, sitePairs: map[uint64]bool{}}
}

type schedResultDoc struct {
	Index      int      `json:"index"`
	K          int      `json:"k"`
	Ops        int      `json:"ops"`
	Policy     string   `json:"policy"`
	Steps      uint64   `json:"steps"`
	Switches   int      `json:"switches"`
	ByKind     [5]int   `json:"switches_by_kind"`
	SameObj    int      `json:"same_object_switches"`
	MidOp      int      `json:"mid_op_switches"`
	Blocked    int      `json:"blocked_spins"`
	Hash       uint64   `json:"interleaving_hash"`
	HookFired  int      `json:"hook_failures_fired"`
	Mutates    int      `json:"mutations"`
	GCs        int      `json:"gcs"`
	Jumps      int      `json:"clock_jumps"`
	LibGo      int      `json:"library_goroutines"`
	LibChan    int      `json:"library_channel_ops"`
	Scribbles  int      `json:"results_edited_by_caller"`
	Errored    int      `json:"ops_errored"`
	True       int      `json:"ops_true"`
	False      int      `json:"ops_false"`
	Panicked   int      `json:"ops_panicked"`
	OrderDec   int      `json:"order_decisions"`
	Nontrivial bool     `json:"nontrivial"`
	PlanHash   uint64   `json:"plan_hash"`
	SitePairs  []uint64 `json:"site_pairs"`
}

func (a *schedAgg) add(d map[string]json.RawMessage, conc bool) {
	var r schedResultDoc
	json.Unmarshal(mustMarshal(d), &r)
	a.Plans++
	a.Ops += r.Ops
	a.Steps += r.Steps
	a.Switches += r.Switches
	for i := range r.ByKind {
		a.ByKind[i] += r.ByKind[i]
	}
	a.SameObj += r.SameObj
	a.MidOp += r.MidOp
	a.Blocked += r.Blocked
	a.HookFired += r.HookFired
	a.Mutates += r.Mutates
	a.GCs += r.GCs
	a.Jumps += r.Jumps
	a.LibGo += r.LibGo
	a.LibChan += r.LibChan
	a.Scribbles += r.Scribbles
	a.Errored += r.Errored
	a.True += r.True
	a.False += r.False
	a.Panicked += r.Panicked
	a.OrderDec += r.OrderDec
	a.ByPolicy[r.Policy]++
	a.ByK[strconv.Itoa(r.K)]++
	id := r.PlanHash
	if conc {
		id = r.PlanHash ^ r.Hash
	}
	a.distinctAll[id] = true
	if r.Nontrivial {
		a.Nontrivial++
		a.distinctNT[id] = true
	}
	for _, sp := range r.SitePairs {
		a.sitePairs[sp] = true
	}
}

// schedBin returns the worker for a build name.
func (c *checkCtx) schedBin(build string) (string, []string) {
	if build == "race" {
		return c.S.Race, []string{"GOMAXPROCS=1", "GORACE=halt_on_error=1 exitcode=66"}
	}
	return c.S.Plain, []string{"GOMAXPROCS=1"}
}

// tryPlan runs one plan document in a fresh process and reports whether the
// violation with the given key shows up.
func (c *checkCtx) tryPlan(p *plan.SchedPlan, key string) (bool, string) {
	return c.tryPlanN(p, key, 3)
}

// tryPlanN: on the race build a run is repeated up to n times. The execution
// is identical every time, but the monitor is not: under -race sync.Pool.Put
// drops one item in four at random, so the incidental happens-before edges that
// fmt's and regexp's pools create between callers (and that can order the two
// racing accesses) differ from run to run. A report is a proof of the race; a
// silent run is not a refutation.
func (c *checkCtx) tryPlanN(p *plan.SchedPlan, key string, n int) (bool, string) {
	if p.Build != "race" {
		n = 1
	}
	var ok bool
	var info string
	for i := 0; i < n && !ok; i++ {
		ok, info = c.tryPlanOnce(p, key)
	}
	return ok, info
}

func (c *checkCtx) tryPlanOnce(p *plan.SchedPlan, key string) (bool, string) {
	q := p.Clone()
	q.Expect = key
	tmp := filepath.Join(c.S.Dir, fmt.Sprintf("cand-%d.json", time.Now().UnixNano()))
	if err := os.WriteFile(tmp, mustMarshal(q), 0o644); err != nil {
		return false, err.Error()
	}
	defer os.Remove(tmp)
	bin, env := c.schedBin(q.Build)
	if q.Procs > 1 {
		env = append([]string{}, env...)
		for i, e := range env {
			if strings.HasPrefix(e, "GOMAXPROCS=") {
				env[i] = fmt.Sprintf("GOMAXPROCS=%d", q.Procs)
			}
		}
	}
	w := runWorker(bin, []string{"sched-replay", "-file", tmp}, env, 5*time.Minute)
	if w.ExitCode == 66 {
		k, detail, harness, ok := c.S.parseRace(w.Stderr)
		if ok && !harness && k == key {
			return true, detail + "\n" + tail(w.Stderr, 5000)
		}
		return false, "another race: " + k
	}
	if w.ExitCode == 3 {
		for _, d := range w.Docs {
			if docType(d) == "abort" {
				var reason string
				json.Unmarshal(d["reason"], &reason)
				if key == "C12/"+reason {
					return true, "run aborted: " + reason
				}
			}
		}
	}
	for _, d := range w.Docs {
		if docType(d) == "replay" {
			var rep bool
			json.Unmarshal(d["reproduced"], &rep)
			return rep, string(mustMarshal(d))
		}
	}
	return false, describeFailure(w)
}

// minimizeSched is delta debugging over the plan: drop callers, operations and
// change points, zero tapes and hook countdowns, while the same violation (same
// key; for races the same pair of functions) persists. Every candidate runs in
// a fresh worker process.
func (c *checkCtx) minimizeSched(p *plan.SchedPlan, key string) *plan.SchedPlan {
	budget := 150
	if p.NOps() > 400 {
		budget = 220
	}
	test := func(q *plan.SchedPlan) bool {
		if budget <= 0 {
			return false
		}
		budget--
		ok, _ := c.tryPlan(q, key)
		return ok
	}
	cur := p.Clone()
	// long histories first lose whole blocks of operations (from the end, then
	// anywhere), halving the block size, before single operations are tried
	dropRange := func(q *plan.SchedPlan, t, from, to int) *plan.SchedPlan {
		for j := to - 1; j >= from; j-- {
			if j < len(q.Tasks[t]) {
				q = q.DropOp(t, j)
			}
		}
		return q
	}
	for t := range cur.Tasks {
		for size := len(cur.Tasks[t]) / 2; size >= 8 && len(cur.Tasks[t]) > 40 && budget > 20; size /= 2 {
			for from := len(cur.Tasks[t]) - size; from >= 0 && budget > 20; from -= size {
				if from+size > len(cur.Tasks[t]) {
					continue
				}
				if q := dropRange(cur, t, from, from+size); test(q) {
					cur = q
				}
			}
		}
	}
	changed := true
	for changed && budget > 0 {
		changed = false
		for t := len(cur.Tasks) - 1; t >= 0 && len(cur.Tasks) > 1; t-- {
			if q := cur.DropTask(t); test(q) {
				cur, changed = q, true
			}
		}
		for t := len(cur.Tasks) - 1; t >= 0; t-- {
			for j := len(cur.Tasks[t]) - 1; j >= 0; j-- {
				if j >= len(cur.Tasks[t]) {
					continue
				}
				if q := cur.DropOp(t, j); test(q) {
					cur, changed = q, true
				}
			}
		}
		if len(cur.Points) > 0 {
			q := cur.Clone()
			q.Points = nil
			if test(q) {
				cur, changed = q, true
			}
		}
		if len(cur.Points) > 12 {
			// halve first
			q := cur.Clone()
			q.Points = q.Points[:len(q.Points)/2]
			if test(q) {
				cur, changed = q, true
			}
		}
		for i := len(cur.Points) - 1; i >= 0 && len(cur.Points) <= 24; i-- {
			if i >= len(cur.Points) {
				continue
			}
			if q := cur.DropPoint(i); test(q) {
				cur, changed = q, true
			}
		}
		if cur.Quantum > 0 {
			q := cur.Clone()
			q.Quantum = 0
			if test(q) {
				cur, changed = q, true
			}
		}
		for t := range cur.Tasks {
			for j := range cur.Tasks[t] {
				op := cur.Tasks[t][j]
				// the outcome classes recorded by the generating process (ref_out) belong to
				// the ops as generated: findings judged against them keep tapes and hook faults
				if refJudged := strings.Contains(key, "sequential-process") || strings.Contains(key, "damaged-by-concurrent-run"); refJudged {
					continue
				}
				if len(op.Tape) > 0 || op.FailAt > 0 {
					q := cur.Clone()
					q.Tasks[t][j].Tape = nil
					if test(q) {
						cur, changed = q, true
					}
					if cur.Tasks[t][j].FailAt > 0 {
						q = cur.Clone()
						q.Tasks[t][j].FailAt = 0
						if test(q) {
							cur, changed = q, true
						}
					}
				}
			}
		}
		for i := range cur.Primed {
			if cur.Primed[i] {
				q := cur.Clone()
				q.Primed[i] = false
				if test(q) {
					cur, changed = q, true
				}
			}
		}
	}
	if q := cur.Compact(); len(q.Objects) < len(cur.Objects) || len(q.Data) < len(cur.Data) {
		if test(q) {
			cur = q
		}
	}
	cur.Expect = key
	return cur
}

// reportSched minimises a simsched violation and hands it to report().
func (c *checkCtx) reportSched(v Violation, extraDetail string) {
	if c.seen != nil && c.seen[v.Key] > 0 {
		c.seen[v.Key]++
		return
	}
	var p plan.SchedPlan
	if err := json.Unmarshal(v.Replay, &p); err != nil {
		c.infraf("bad plan in violation: %v", err)
		return
	}
	ok, info := c.tryPlanN(&p, v.Key, 10)
	if !ok {
		// the plan alone does not show it: the finding depends on what the worker
		// process had done before. The worker is seeded: generating and executing
		// the same slice of plans again, in a fresh process, must find the same
		// violation at the same index.
		if ok2, info2 := c.confirmSchedSlice(&p, v.Key); ok2 {
			v.Replay = mustMarshal(&p)
			if extraDetail != "" {
				v.Detail = extraDetail
			}
			v.Detail += " [depends on the calls the process made before this plan; " + info2 + "]"
			c.reportConfirmed(v)
			return
		}
		c.infraf("violation %s (plan %d) did not reproduce in a fresh process; not reported: %s", v.Key, p.Index, tail(info, 1200))
		return
	}
	min := c.minimizeSched(&p, v.Key)
	v.Replay = mustMarshal(min)
	if extraDetail != "" {
		v.Detail = extraDetail
	}
	v.Detail += fmt.Sprintf(" [minimised plan: %d callers, %d ops, %d change points, policy %s]", len(min.Tasks), min.NOps(), len(min.Points), min.Policy)
	c.report(v)
}

// confirmSchedSlice re-executes, in a fresh process, the slice of plans the
// finding in-process worker had run up to and including plan p.
func (c *checkCtx) confirmSchedSlice(p *plan.SchedPlan, key string) (bool, string) {
	if p.SliceStride <= 0 {
		return false, ""
	}
	bin, env := c.schedBin("plain")
	args := []string{"sched-genexec", "-k", strconv.Itoa(p.SliceK), "-seed", strconv.FormatUint(p.Seed, 10), "-from", strconv.Itoa(p.SliceFrom),
		"-to", strconv.Itoa(p.Index + 1), "-stride", strconv.Itoa(p.SliceStride)}
	w := runWorker(bin, args, env, 30*time.Minute)
	for _, d := range w.Docs {
		if docType(d) != "violation" {
			continue
		}
		var got Violation
		json.Unmarshal(mustMarshal(d), &got)
		if got.Key == key && got.Index == p.Index {
			return true, "reproduced by running the seeded slice again in a fresh process: simworker " + strings.Join(args, " ")
		}
	}
	return false, ""
}

// runSchedHot generates and executes plans in the same worker processes.
func (c *checkCtx) runSchedHot(prop string, build string, nPlans int, soft string, timeout time.Duration, agg *schedAgg) {
	bin, env := c.schedBin(build)
	kflag := "12"
	if prop == "C13" {
		kflag = "13"
	}
	if prop == "C11" {
		kflag = "11"
	}
	nproc := c.Par
	var jobs [][]string
	for w := 0; w < nproc; w++ {
		jobs = append(jobs, []string{"sched-genexec", "-k", kflag, "-seed", strconv.FormatUint(c.Seed, 10), "-from", strconv.Itoa(w), "-to", strconv.Itoa(nPlans),
			"-stride", strconv.Itoa(nproc), "-time", soft})
	}
	for _, w := range runPool(bin, jobs, env, nproc, timeout) {
		c.absorbSched(w, prop, build, agg)
	}
}

// absorbSched processes the documents of one simsched worker run.
func (c *checkCtx) absorbSched(w WorkerRun, prop, build string, agg *schedAgg) (lastBegin int) {
	lastBegin = -1
	done := false
	for _, d := range w.Docs {
		switch docType(d) {
		case "aged":
			agg.Aged++
		case "begin":
			json.Unmarshal(d["pos"], &lastBegin)
		case "result":
			agg.add(d, prop != "C13")
		case "sample-plan":
			if len(agg.Samples) < 3 {
				agg.Samples = append(agg.Samples, d["plan"])
			}
		case "violation":
			var v Violation
			json.Unmarshal(mustMarshal(d), &v)
			if v.Property != prop {
				continue // the other property's check reports it
			}
			var p plan.SchedPlan
			json.Unmarshal(v.Replay, &p)
			p.Build = "plain"
			v.Replay = mustMarshal(&p)
			c.reportSched(v, "")
		case "abort":
			var reason string
			json.Unmarshal(d["reason"], &reason)
			agg.Aborts = append(agg.Aborts, reason)
			var p plan.SchedPlan
			if json.Unmarshal(d["plan"], &p) == nil && len(p.Tasks) > 0 && reason == "deadlock" && prop == "C12" {
				p.Build = build
				v := Violation{Type: "violation", Property: "C12", Engine: "simsched", Kind: "deadlock", Key: "C12/deadlock",
					Detail: "every unfinished caller waits on a modelled lock held by another parked caller: under this schedule the calls never return", Seed: p.Seed, Index: p.Index, Replay: mustMarshal(&p)}
				c.reportSched(v, "")
			} else {
				c.infraf("plan %d aborted: %s (inconclusive)", p.Index, reason)
			}
		case "done":
			done = true
		}
	}
	switch {
	case w.ExitCode == 0 && done:
	case w.ExitCode == 66 || w.ExitCode == 3:
		// 66: handled by the caller (race report), which knows the plan file; 3: abort document handled above
	default:
		c.infraf("%s", describeFailure(w))
	}
	return lastBegin
}

// runSchedCold generates plans with the plain worker, writes them to chunk
// files and executes every chunk in fresh processes of the given build, the
// concurrent run first (cold start: nothing in the process has touched the
// plan's expressions before the callers race on them).
func (c *checkCtx) runSchedCold(prop, build string, firstPlan, nPlans, chunk int, timeout time.Duration, agg *schedAgg) {
	kflag := "12"
	if prop == "C13" {
		kflag = "13"
	}
	nproc := c.Par
	// stage 1: plans
	var gjobs [][]string
	for w := 0; w < nproc; w++ {
		gjobs = append(gjobs, []string{"sched-gen", "-k", kflag, "-seed", strconv.FormatUint(c.Seed+7777, 10), "-from", strconv.Itoa(firstPlan + w), "-to", strconv.Itoa(firstPlan + nPlans), "-stride", strconv.Itoa(nproc)})
	}
	var plans []json.RawMessage
	for _, w := range runPool(c.S.Plain, gjobs, []string{"GOMAXPROCS=1"}, nproc, timeout) {
		if w.ExitCode != 0 {
			c.infraf("%s", describeFailure(w))
			continue
		}
		for _, d := range w.Docs {
			if docType(d) == "plan" {
				var p plan.SchedPlan
				if json.Unmarshal(d["plan"], &p) == nil {
					p.Build = build
					plans = append(plans, mustMarshal(&p))
				}
			}
		}
	}
	if len(agg.Samples) < 3 && len(plans) > 0 {
		agg.Samples = append(agg.Samples, plans[0])
	}
	// "solo" plans get a process of their own: plans without shared objects (the
	// first parse of the process happens inside the callers) and hammer-shaped
	// plans (every caller makes the same calls on one shared object), for which
	// whatever the calls do on first use in the process must not have been done
	// by an earlier plan. The rest is grouped into chunks.
	isSolo := func(raw json.RawMessage) bool {
		var p plan.SchedPlan
		if json.Unmarshal(raw, &p) != nil {
			return false
		}
		if len(p.Objects) == 0 {
			return true
		}
		if len(p.Objects) < 1 || len(p.Tasks) < 2 {
			return false
		}
		for i, o := range p.Objects {
			if i > 0 && o.CopyOf != 1 {
				return false // (by-value copies of the one object count as that object)
			}
		}
		for _, t := range p.Tasks {
			for _, o := range t {
				if o.Kind != "create" && o.Kind != "eval" && o.Kind != "exec" {
					return false
				}
			}
		}
		return true
	}
	type chunkT struct {
		file  string
		plans []json.RawMessage
		multi bool
	}
	var chunks []chunkT
	addChunk := func(ps []json.RawMessage) {
		if len(chunks)%3 == 2 {
			stamped := make([]json.RawMessage, len(ps))
			for i, raw := range ps {
				var p plan.SchedPlan
				if json.Unmarshal(raw, &p) == nil {
					p.Procs = 4
					stamped[i] = mustMarshal(&p)
				} else {
					stamped[i] = raw
				}
			}
			ps = stamped
		}
		f := filepath.Join(c.S.Dir, fmt.Sprintf("plans-%s-%d.jsonl", build, len(chunks)))
		var b strings.Builder
		for _, p := range ps {
			b.Write(p)
			b.WriteByte('\n')
		}
		os.WriteFile(f, []byte(b.String()), 0o644)
		chunks = append(chunks, chunkT{f, ps, len(chunks)%3 == 2})
	}
	var rest []json.RawMessage
	solo := 0
	for _, p := range plans {
		if isSolo(p) {
			addChunk([]json.RawMessage{p})
			solo++
		} else {
			rest = append(rest, p)
		}
	}
	for i := 0; i < len(rest); i += chunk {
		j := i + chunk
		if j > len(rest) {
			j = len(rest)
		}
		addChunk(rest[i:j])
	}
	agg.SoloProcs += solo
	agg.ColdProcs += len(chunks)
	bin, env := c.schedBin(build)
	sem := make(chan struct{}, nproc)
	type outT struct {
		runs []WorkerRun
		ch   chunkT
	}
	results := make(chan outT, len(chunks))
	for _, ch := range chunks {
		sem <- struct{}{}
		go func(ch chunkT) {
			defer func() { <-sem }()
			var runs []WorkerRun
			from := 0
			// one process in three runs on four Ps: code that sizes its work by
			// GOMAXPROCS then takes its parallel paths (the schedule is still
			// decided by the simulator; parked callers merely spin on other Ps)
			penv := env
			if ch.multi {
				penv = append([]string{}, env...)
				for i, e := range penv {
					if strings.HasPrefix(e, "GOMAXPROCS=") {
						penv[i] = "GOMAXPROCS=4"
					}
				}
			}
			for attempt := 0; attempt < 6 && from < len(ch.plans); attempt++ {
				w := runWorker(bin, []string{"sched-exec", "-file", ch.file, "-from", strconv.Itoa(from)}, penv, timeout)
				runs = append(runs, w)
				if w.ExitCode != 66 && w.ExitCode != 3 {
					break
				}
				// the plan that was running when the process died
				last := -1
				for _, d := range w.Docs {
					if docType(d) == "begin" {
						json.Unmarshal(d["pos"], &last)
					}
				}
				if last < 0 {
					break
				}
				from = last + 1
			}
			results <- outT{runs, ch}
		}(ch)
	}
	for range chunks {
		o := <-results
		for _, w := range o.runs {
			last := c.absorbSched(w, prop, build, agg)
			if last < 0 || last >= len(o.ch.plans) {
				continue
			}
			var p plan.SchedPlan
			json.Unmarshal(o.ch.plans[last], &p)
			switch w.ExitCode {
			case 66:
				key, detail, harness, ok := c.S.parseRace(w.Stderr)
				switch {
				case !ok:
					c.infraf("worker exited with the race detector's code but no report was found: %s", tail(w.Stderr, 2000))
				case harness:
					c.infraf("data race outside go-bexpr (harness): %s", detail)
				default:
					v := Violation{Type: "violation", Property: "C12", Engine: "simsched", Kind: "data-race", Key: key, Detail: detail, Seed: p.Seed, Index: p.Index, Replay: o.ch.plans[last]}
					c.reportSched(v, detail)
				}
			}
		}
	}
}
