package main

import (
	"bytes"
	"encoding/json"
	"fmt"
	"io"
	"io/fs"
	"os"
	"os/exec"
	"os/signal"
	"path/filepath"
	"strings"
	"sync"
	"syscall"
	"time"

	"verif.local/verif/inst"
)

// Scratch is one instrumented copy of the repository plus the workers built
// against it. It lives outside /repo and /verif and is removed on exit.
type Scratch struct {
	Dir     string
	RepoDir string
	ModFile string
	Report  *inst.Report
	Plain   string // worker, instrumented, no race detector
	Race    string // worker, instrumented, -race
	Pure    string // worker built against the untouched sources (no -tags verif)
	Timing  map[string]float64
}

var (
	cleanupMu  sync.Mutex
	cleanupDir []string
)

func registerCleanup(dir string) {
	cleanupMu.Lock()
	cleanupDir = append(cleanupDir, dir)
	cleanupMu.Unlock()
}

func cleanupAll() {
	cleanupMu.Lock()
	defer cleanupMu.Unlock()
	for _, d := range cleanupDir {
		os.RemoveAll(d)
	}
	cleanupDir = nil
}

func installSignalCleanup() {
	ch := make(chan os.Signal, 1)
	signal.Notify(ch, syscall.SIGINT, syscall.SIGTERM, syscall.SIGHUP)
	go func() {
		<-ch
		cleanupAll()
		os.Exit(2)
	}()
}

func goEnv() []string {
	env := os.Environ()
	out := env[:0:0]
	for _, e := range env {
		if strings.HasPrefix(e, "GOFLAGS=") || strings.HasPrefix(e, "GOPROXY=") || strings.HasPrefix(e, "GOSUMDB=") ||
			strings.HasPrefix(e, "GOTOOLCHAIN=") || strings.HasPrefix(e, "GOWORK=") {
			continue
		}
		out = append(out, e)
	}
	return append(out, "GOFLAGS=-mod=mod", "GOPROXY=off", "GOSUMDB=off", "GOTOOLCHAIN=local", "GOWORK=off")
}

func verifRoot() string {
	if r := os.Getenv("VERIF_ROOT"); r != "" {
		return r
	}
	exe, err := os.Executable()
	if err == nil {
		d := filepath.Dir(filepath.Dir(exe))
		if _, err := os.Stat(filepath.Join(d, "go.mod")); err == nil {
			return d
		}
	}
	wd, _ := os.Getwd()
	return wd
}

func repoRoot() string {
	if r := os.Getenv("VERIF_REPO"); r != "" {
		return r
	}
	return "/repo"
}

func copyTree(src, dst string) error {
	return filepath.WalkDir(src, func(p string, d fs.DirEntry, err error) error {
		if err != nil {
			return err
		}
		rel, _ := filepath.Rel(src, p)
		if rel == ".git" || strings.HasPrefix(rel, ".git"+string(filepath.Separator)) {
			if d.IsDir() {
				return filepath.SkipDir
			}
			return nil
		}
		target := filepath.Join(dst, rel)
		if d.IsDir() {
			return os.MkdirAll(target, 0o755)
		}
		if !d.Type().IsRegular() {
			return nil
		}
		in, err := os.Open(p)
		if err != nil {
			return err
		}
		defer in.Close()
		out, err := os.Create(target)
		if err != nil {
			return err
		}
		if _, err := io.Copy(out, in); err != nil {
			out.Close()
			return err
		}
		return out.Close()
	})
}

func run(dir string, env []string, name string, args ...string) (string, error) {
	cmd := exec.Command(name, args...)
	cmd.Dir = dir
	cmd.Env = env
	var buf bytes.Buffer
	cmd.Stdout = &buf
	cmd.Stderr = &buf
	err := cmd.Run()
	return buf.String(), err
}

type prepOpts struct {
	race     bool
	pure     bool
	fidelity bool
}

// prepare copies the current working tree of the repository, instruments the
// copy and builds the requested workers against it.
func prepare(o prepOpts) (*Scratch, error) {
	t0 := time.Now()
	dir, err := os.MkdirTemp("", "vcheck-")
	if err != nil {
		return nil, err
	}
	registerCleanup(dir)
	s := &Scratch{Dir: dir, RepoDir: filepath.Join(dir, "repo"), Timing: map[string]float64{}}
	if err := copyTree(repoRoot(), s.RepoDir); err != nil {
		return nil, fmt.Errorf("copy: %w", err)
	}
	// an untouched second copy for the uninstrumented worker
	pureDir := filepath.Join(dir, "pure")
	if o.pure {
		if err := copyTree(repoRoot(), pureDir); err != nil {
			return nil, fmt.Errorf("copy: %w", err)
		}
	}
	s.Timing["copy_s"] = time.Since(t0).Seconds()
	t1 := time.Now()
	root := verifRoot()
	simDir := filepath.Join(root, "sim", "verifsim")
	env := goEnv()
	rep, err := inst.Instrument(s.RepoDir, simDir, env)
	if err != nil {
		return nil, fmt.Errorf("instrument: %w", err)
	}
	s.Report = rep
	s.Timing["instrument_s"] = time.Since(t1).Seconds()

	// module file for building the workers from the verif module against the copy
	gm, err := os.ReadFile(filepath.Join(root, "go.mod"))
	if err != nil {
		return nil, err
	}
	mk := func(repoDir, name string) (string, error) {
		var b strings.Builder
		for _, line := range strings.Split(string(gm), "\n") {
			if strings.HasPrefix(line, "replace ") {
				continue
			}
			b.WriteString(line + "\n")
		}
		fmt.Fprintf(&b, "\nreplace github.com/hashicorp/go-bexpr => %s\n\nreplace %s => %s\n", repoDir, inst.SimImport, simDir)
		mf := filepath.Join(dir, name+".mod")
		if err := os.WriteFile(mf, []byte(b.String()), 0o644); err != nil {
			return "", err
		}
		sum, _ := os.ReadFile(filepath.Join(root, "go.sum"))
		rs, _ := os.ReadFile(filepath.Join(repoRoot(), "go.sum"))
		if err := os.WriteFile(filepath.Join(dir, name+".sum"), append(sum, rs...), 0o644); err != nil {
			return "", err
		}
		return mf, nil
	}
	s.ModFile, err = mk(s.RepoDir, "go")
	if err != nil {
		return nil, err
	}
	os.MkdirAll(filepath.Join(dir, "bin"), 0o755)

	type job struct {
		out  *string
		path string
		args []string
		key  string
	}
	var jobs []job
	s.Plain = filepath.Join(dir, "bin", "simworker")
	jobs = append(jobs, job{&s.Plain, s.Plain, []string{"build", "-modfile=" + s.ModFile, "-tags", "verif", "-o", s.Plain, "./cmd/simworker"}, "build_plain_s"})
	if o.race {
		s.Race = filepath.Join(dir, "bin", "simworker.race")
		jobs = append(jobs, job{&s.Race, s.Race, []string{"build", "-race", "-modfile=" + s.ModFile, "-tags", "verif", "-o", s.Race, "./cmd/simworker"}, "build_race_s"})
	}
	if o.pure {
		pm, err := mk(pureDir, "pure")
		if err != nil {
			return nil, err
		}
		s.Pure = filepath.Join(dir, "bin", "simworker.pure")
		jobs = append(jobs, job{&s.Pure, s.Pure, []string{"build", "-modfile=" + pm, "-o", s.Pure, "./cmd/simworker"}, "build_pure_s"})
	}
	var wg sync.WaitGroup
	errs := make([]error, len(jobs)+1)
	var tmu sync.Mutex
	for i, j := range jobs {
		wg.Add(1)
		go func(i int, j job) {
			defer wg.Done()
			tb := time.Now()
			out, err := run(root, env, "go", j.args...)
			if err != nil {
				errs[i] = fmt.Errorf("go %s: %v\n%s", strings.Join(j.args, " "), err, out)
			}
			tmu.Lock()
			s.Timing[j.key] = time.Since(tb).Seconds()
			tmu.Unlock()
		}(i, j)
	}
	if o.fidelity {
		wg.Add(1)
		go func() {
			defer wg.Done()
			tb := time.Now()
			out, err := run(s.RepoDir, env, "go", "test", "-tags", "verif", "-vet=off", "-count=1", "-parallel", "1", "./...")
			if err != nil {
				errs[len(jobs)] = fmt.Errorf("instrumentation fidelity: the repository's own tests fail on the instrumented copy (simulator inactive): %v\n%s", err, tail(out, 4000))
			}
			tmu.Lock()
			s.Timing["fidelity_s"] = time.Since(tb).Seconds()
			tmu.Unlock()
		}()
	}
	wg.Wait()
	for _, e := range errs {
		if e != nil {
			return nil, e
		}
	}
	s.Timing["prepare_s"] = time.Since(t0).Seconds()
	return s, nil
}

func tail(s string, n int) string {
	if len(s) <= n {
		return s
	}
	return s[len(s)-n:]
}

func (s *Scratch) Remove() {
	os.RemoveAll(s.Dir)
}

func writeJSON(path string, v interface{}) error {
	b, err := json.MarshalIndent(v, "", " ")
	if err != nil {
		return err
	}
	os.MkdirAll(filepath.Dir(path), 0o755)
	return os.WriteFile(path, append(b, '\n'), 0o644)
}
