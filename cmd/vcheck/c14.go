package main

import (
	"encoding/json"
	"fmt"
	"os"
	"path/filepath"
	"strconv"
	"strings"
	"time"
)

// checkC14 drives ordersim: seam-controlled exploration of map iteration
// orders on the instrumented build, then the uncontrolled-repetition probe of
// the non-trivial cases on the untouched build under the real runtime.
func checkC14(c *checkCtx) int {
	cases := 2400
	probeQuota := 40 // per worker
	reps := 200
	timeout := 5 * time.Minute
	soft := "60s"
	if c.Tier == "thorough" {
		cases = 600000
		probeQuota = 400
		timeout = 60 * time.Minute
		soft = "40m"
	}
	nproc := c.Par
	var jobs [][]string
	for w := 0; w < nproc; w++ {
		jobs = append(jobs, []string{"c14", "-seed", strconv.FormatUint(c.Seed, 10), "-from", strconv.Itoa(w), "-to", strconv.Itoa(cases),
			"-stride", strconv.Itoa(nproc), "-tier", c.Tier, "-time", soft, "-k", strconv.Itoa(probeQuota)})
	}
	t1 := time.Now()
	runs := runPool(c.S.Plain, jobs, []string{"GOMAXPROCS=1"}, nproc, timeout)
	wall := time.Since(t1).Seconds()
	type sumT struct {
		Cases      int               `json:"cases"`
		Orders     int               `json:"orders"`
		WithDec    int               `json:"cases_with_order_decision"`
		Nontrivial int               `json:"nontrivial_cases"`
		Exhaustive int               `json:"exhaustive_trees"`
		PathSens   int               `json:"cases_where_order_changed_statement_count"`
		Decisions  int               `json:"order_decisions"`
		ByFamily   map[string]int    `json:"by_family"`
		Steps      uint64            `json:"statements_executed"`
		Samples    []json.RawMessage `json:"samples"`
		NTHashes   []uint64          `json:"nontrivial_hashes"`
		ProbeCases []json.RawMessage `json:"probe_cases"`
		ClassMixes map[string]int    `json:"class_mix_histogram"`
		EnvRuns    int               `json:"environment_fault_runs"`
		Aged       int               `json:"process_aged_with_calls"`
		Sentinels  []struct {
			Case  json.RawMessage `json:"case"`
			Pair  json.RawMessage `json:"pair"`
			Hash  uint64          `json:"hash"`
			Class string          `json:"class"`
		} `json:"sentinels"`
	}
	tot := sumT{ByFamily: map[string]int{}, ClassMixes: map[string]int{}}
	distinct := map[uint64]bool{}
	sentinel := map[uint64]string{}
	sentinelCase := map[uint64]json.RawMessage{}
	sentinelPair := map[uint64]json.RawMessage{}
	sentinelDiff := map[uint64]string{}
	sentinelRuns := 0
	for _, w := range runs {
		if w.ExitCode != 0 {
			c.infraf("%s", describeFailure(w))
			continue
		}
		got := false
		for _, d := range w.Docs {
			switch docType(d) {
			case "violation":
				var v Violation
				json.Unmarshal(mustMarshal(d), &v)
				c.report(v)
			case "summary":
				got = true
				var s sumT
				json.Unmarshal(mustMarshal(d), &s)
				tot.Cases += s.Cases
				tot.Orders += s.Orders
				tot.WithDec += s.WithDec
				tot.Nontrivial += s.Nontrivial
				tot.Exhaustive += s.Exhaustive
				tot.PathSens += s.PathSens
				tot.Decisions += s.Decisions
				tot.Steps += s.Steps
				tot.EnvRuns += s.EnvRuns
				if s.Aged > 0 {
					tot.Aged++
				}
				for k, n := range s.ByFamily {
					tot.ByFamily[k] += n
				}
				for k, n := range s.ClassMixes {
					tot.ClassMixes[k] += n
				}
				for _, h := range s.NTHashes {
					distinct[h] = true
				}
				if len(tot.Samples) < 3 && len(s.Samples) > 0 {
					tot.Samples = append(tot.Samples, s.Samples[0])
				}
				tot.ProbeCases = append(tot.ProbeCases, s.ProbeCases...)
				for _, sn := range s.Sentinels {
					if prev, ok := sentinel[sn.Hash]; !ok {
						sentinel[sn.Hash] = sn.Class
						sentinelCase[sn.Hash] = sn.Case
						sentinelPair[sn.Hash] = sn.Pair
					} else if prev != sn.Class {
						sentinelDiff[sn.Hash] = prev + " vs " + sn.Class
					}
					sentinelRuns++
				}
			}
		}
		if !got {
			c.infraf("worker produced no summary: %s", describeFailure(w))
		}
	}
	// the same sentinel cases ran in every worker process: their outcomes must agree
	for h, d := range sentinelDiff {
		var cs struct {
			Obj struct {
				Expr string `json:"expr"`
			} `json:"obj"`
			Op     string `json:"op"`
			Family string `json:"family"`
		}
		json.Unmarshal(sentinelCase[h], &cs)
		c.report(Violation{Type: "violation", Property: "C14", Engine: "ordersim", Kind: "differs-between-processes",
			Key:    "C14/process/" + cs.Op + "/" + cs.Family,
			Detail: fmt.Sprintf("%s %q gives different outcomes for the same datum in different worker processes (%s): the result is not a function of (expression, options, datum)", cs.Op, cs.Obj.Expr, d),
			Seed:   c.Seed,
			Replay: mustMarshal(map[string]interface{}{"engine": "ordersim", "property": "C14", "build": "plain", "seed": c.Seed, "case": sentinelCase[h], "pair": sentinelPair[h], "cross_process": true})})
	}
	// probe on the untouched build
	probed, calls := 0, 0
	if len(tot.ProbeCases) > 0 && c.S.Pure != "" {
		var b strings.Builder
		for _, pc := range tot.ProbeCases {
			b.Write(pc)
			b.WriteByte('\n')
		}
		pf := filepath.Join(c.S.Dir, "probe-cases.jsonl")
		os.WriteFile(pf, []byte(b.String()), 0o644)
		var pj [][]string
		for w := 0; w < nproc; w++ {
			pj = append(pj, []string{"c14-probe", "-file", pf, "-from", strconv.Itoa(w), "-stride", strconv.Itoa(nproc), "-k", strconv.Itoa(reps), "-seed", strconv.FormatUint(c.Seed, 10)})
		}
		for _, w := range runPool(c.S.Pure, pj, nil, nproc, timeout) {
			if w.ExitCode != 0 {
				c.infraf("%s", describeFailure(w))
				continue
			}
			for _, d := range w.Docs {
				switch docType(d) {
				case "violation":
					var v Violation
					json.Unmarshal(mustMarshal(d), &v)
					c.report(v)
				case "summary":
					var s struct {
						N     int `json:"probed_cases"`
						Calls int `json:"calls"`
					}
					json.Unmarshal(mustMarshal(d), &s)
					probed += s.N
					calls += s.Calls
				}
			}
		}
	}
	cov := map[string]interface{}{
		"evaluations":                          tot.Orders,
		"distinct_nontrivial":                  len(distinct),
		"rule":                                 "a case is (expression, options, datum, Evaluate|Execute); an evaluation is one execution of the case under one simulator-chosen map iteration order (canonical, reverse, every rotation, every entry-first order at the first three decision points, seeded random tapes, and the whole decision tree when it has <= 5040 leaves); a case is non-trivial when the entries of the first map whose order is decided, each evaluated alone (single-entry restriction, measured), mix at least one erroring entry with a non-erroring one or contain two erroring ones; distinct_nontrivial counts distinct such cases by hash of (expression, options, datum spec)",
		"samples":                              tot.Samples,
		"exhaustive":                           false,
		"cases":                                tot.Cases,
		"cases_with_order_decision":            tot.WithDec,
		"nontrivial_cases":                     tot.Nontrivial,
		"decision_trees_enumerated_completely": tot.Exhaustive,
		"cases_where_order_changed_statement_count": tot.PathSens,
		"cases_by_family":     tot.ByFamily,
		"class_mix_histogram": tot.ClassMixes,
		"fault_kinds_fired": map[string]int{
			"map_order_permutation_decisions": tot.Decisions,
			"clock_jump_or_random_seed_runs":  tot.EnvRuns,
		},
		"cross_process_sentinels": map[string]interface{}{"cases": len(sentinel), "executions": sentinelRuns, "note": "the same seeded cases are executed by every worker process; their outcome classes must agree"},
		"uncontrolled_probe": map[string]interface{}{
			"cases": probed, "repetitions_each": reps, "calls": calls,
			"note": "executed on the untouched sources under the real Go runtime; a divergence here that the seam did not predict is an order source the instrumenter missed and is reported as a (statistical) violation",
		},
		"simulated_time_steps":                   tot.Steps,
		"steps_per_hour":                         float64(tot.Steps) / wall * 3600,
		"runs_per_hour":                          float64(tot.Orders) / wall * 3600,
		"worker_processes":                       nproc,
		"worker_processes_aged_before_exploring": tot.Aged,
		"oracles":                                []string{"all explored orders of a case give the same (boolean, error-or-not) for Evaluate and the same (result, error-or-not) for Execute", "repeating the call on the untouched build gives the same outcome"},
	}
	c.writeEvidence("exploration", cov, []string{
		"cases are sampled; orders are sampled except for decision trees of at most 5040 leaves",
		"map keys in the pools have a value order (no pointer or channel keys), so the seam's canonical order is process-independent",
		"iteration-order sources outside go-bexpr's own packages (pointerstructure's key membership scan) are not controlled; they do not influence results",
	})
	return c.exitCode()
}
