package main

import (
	"fmt"
	"os"
	"path/filepath"
	"regexp"
	"sort"
	"strconv"
	"strings"
)

// raceAccess is one of the two accesses of a ThreadSanitizer report.
type raceAccess struct {
	What  string // "Write", "Previous read", ...
	Func  string // innermost go-bexpr function
	File  string
	Line  int // line in the generated file
	Orig  int // line in the original source (via the nearest preceding yield site)
	Found bool
}

var yieldRe = regexp.MustCompile(`verifsim\.Yield\((\d+)\)`)

// origLine maps a line of a generated X_verif.go file back to the original
// source line through the nearest preceding yield site.
func (s *Scratch) origLine(file string, line int) int {
	b, err := os.ReadFile(file)
	if err != nil {
		return 0
	}
	lines := strings.Split(string(b), "\n")
	for i := line - 1; i >= 0 && i < len(lines); i-- {
		if m := yieldRe.FindStringSubmatch(lines[i]); m != nil {
			id, _ := strconv.Atoi(m[1])
			if id >= 0 && id < len(s.Report.Sites) {
				return s.Report.Sites[id].Line
			}
			return 0
		}
	}
	return 0
}

// parseRace extracts the first data race report from a worker's stderr.
// ok=false: no report. harness=true: neither access is inside go-bexpr (a race
// of the harness with itself: infrastructure trouble, never a violation).
func (s *Scratch) parseRace(stderr string) (key, detail string, harness, ok bool) {
	i := strings.Index(stderr, "WARNING: DATA RACE")
	if i < 0 {
		return "", "", false, false
	}
	rep := stderr[i:]
	if j := strings.Index(rep, "Goroutine "); j > 0 {
		rep = rep[:j]
	}
	var acc []raceAccess
	lines := strings.Split(rep, "\n")
	for n := 0; n < len(lines); n++ {
		l := lines[n]
		if strings.HasPrefix(l, "  ") || !strings.Contains(l, " at 0x") {
			continue
		}
		a := raceAccess{What: strings.TrimSpace(l[:strings.Index(l, " at 0x")])}
		for m := n + 1; m+1 < len(lines) && strings.HasPrefix(lines[m], "  "); m += 2 {
			fn := strings.TrimSpace(lines[m])
			loc := strings.TrimSpace(lines[m+1])
			if strings.HasPrefix(fn, "github.com/hashicorp/go-bexpr") && !a.Found {
				a.Func = strings.TrimSuffix(strings.TrimPrefix(strings.TrimPrefix(fn, "github.com/hashicorp/go-bexpr/"), "github.com/hashicorp/go-bexpr."), "()")
				if k := strings.LastIndex(loc, " +0x"); k > 0 {
					loc = loc[:k]
				}
				if k := strings.LastIndex(loc, ":"); k > 0 {
					a.File = loc[:k]
					a.Line, _ = strconv.Atoi(loc[k+1:])
					a.Orig = s.origLine(a.File, a.Line)
				}
				a.Found = true
			}
		}
		acc = append(acc, a)
	}
	var names, descr []string
	found := false
	for _, a := range acc {
		if a.Found {
			found = true
			names = append(names, a.Func)
			descr = append(descr, fmt.Sprintf("%s in %s (%s:%d)", a.What, a.Func, strings.TrimSuffix(filepath.Base(a.File), "_verif.go")+".go", a.Orig))
		} else {
			names = append(names, "?")
			descr = append(descr, a.What+" outside go-bexpr")
		}
	}
	if !found {
		return "", tail(rep, 3000), true, true
	}
	sort.Strings(names)
	return "C12/race/" + strings.Join(names, "|"), "data race: " + strings.Join(descr, " vs "), false, true
}
