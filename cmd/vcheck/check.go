package main

import (
	"encoding/json"
	"fmt"
	"os"
	"path/filepath"
	"runtime"
	"strconv"
	"strings"
	"time"

	"verif.local/verif/simlib/plan"
)

// checkCtx is the state of one `vcheck check` invocation.
type checkCtx struct {
	ID       string
	Tier     string
	Seed     uint64
	Root     string
	T0       time.Time
	S        *Scratch
	Known    []Finding
	Par      int
	nViol    int // unlisted violations
	nKnown   int
	infra    []string
	replays  []string
	seen     map[string]int // violation key -> times seen
	detSlice string
}

func (c *checkCtx) evidencePath() string {
	dir := filepath.Join(c.Root, "evidence")
	if d := os.Getenv("VERIF_EVIDENCE_DIR"); d != "" {
		dir = d
	}
	return filepath.Join(dir, c.ID+".json")
}

func (c *checkCtx) infraf(format string, a ...interface{}) {
	msg := fmt.Sprintf(format, a...)
	c.infra = append(c.infra, msg)
	fmt.Fprintln(os.Stderr, "INFRA:", msg)
}

// replayCmd maps an engine to its worker replay command.
var replayCmd = map[string]string{"abortsim": "c11-replay", "ordersim": "c14-replay", "simsched": "sched-replay"}

// confirm re-executes a violation's replay document in a fresh process.
func (c *checkCtx) confirm(v Violation) (bool, string) {
	var streamDoc struct {
		Stream json.RawMessage `json:"stream"`
	}
	json.Unmarshal(v.Replay, &streamDoc)
	if v.Engine == "simsched" && len(streamDoc.Stream) == 0 {
		var p plan.SchedPlan
		if err := json.Unmarshal(v.Replay, &p); err != nil {
			return false, err.Error()
		}
		ok, info := c.tryPlanN(&p, v.Key, 10)
		if !ok {
			if ok2, info2 := c.confirmSchedSlice(&p, v.Key); ok2 {
				return true, info2
			}
		}
		return ok, info
	}
	var cross struct {
		Cross bool `json:"cross_process"`
	}
	json.Unmarshal(v.Replay, &cross)
	if cross.Cross {
		// re-execute in several fresh processes; reproduced if two of them disagree
		tmp := filepath.Join(c.S.Dir, fmt.Sprintf("replay-%d.json", time.Now().UnixNano()))
		if err := os.WriteFile(tmp, v.Replay, 0o644); err != nil {
			return false, err.Error()
		}
		defer os.Remove(tmp)
		seen := map[string]int{}
		for i := 0; i < 8; i++ {
			w := runWorker(c.S.Plain, []string{replayCmd[v.Engine], "-file", tmp, "-k", strconv.Itoa(i)}, []string{"GOMAXPROCS=1"}, 5*time.Minute)
			for _, d := range w.Docs {
				if docType(d) == "replay" {
					var cl string
					json.Unmarshal(d["class"], &cl)
					seen[cl]++
				}
			}
		}
		return len(seen) > 1, fmt.Sprintf("outcome classes over 8 fresh processes: %v", seen)
	}
	tmp := filepath.Join(c.S.Dir, fmt.Sprintf("replay-%d.json", time.Now().UnixNano()))
	if err := os.WriteFile(tmp, v.Replay, 0o644); err != nil {
		return false, err.Error()
	}
	defer os.Remove(tmp)
	bin := c.S.Plain
	var build struct {
		Build string `json:"build"`
	}
	json.Unmarshal(v.Replay, &build)
	env := []string{"GOMAXPROCS=1"}
	switch build.Build {
	case "race":
		bin = c.S.Race
		env = append(env, "GORACE=halt_on_error=1 exitcode=66")
	case "pure":
		bin = c.S.Pure
		env = nil // the uncontrolled probe runs under the real runtime, all CPUs
	}
	if bin == "" {
		return false, "no worker for build " + build.Build
	}
	w := runWorker(bin, []string{replayCmd[v.Engine], "-file", tmp}, env, 10*time.Minute)
	if build.Build == "race" && w.ExitCode == 66 {
		return true, tail(w.Stderr, 6000)
	}
	if v.Engine == "abortsim" {
		// A tree on which the step count of one input varies from parse to parse
		// (itself a violation: there is no N) fails the same oracle again, but not
		// necessarily at the same budget or through the same API: up to four fresh
		// processes, and the same oracle failing through either API counts.
		for try := 0; try < 4; try++ {
			for _, d := range w.Docs {
				if docType(d) == "replay" {
					var rep, repKind bool
					json.Unmarshal(d["reproduced"], &rep)
					json.Unmarshal(d["reproduced_same_kind"], &repKind)
					if rep || repKind {
						return true, string(mustMarshal(d))
					}
				}
			}
			if try < 3 {
				w = runWorker(bin, []string{replayCmd[v.Engine], "-file", tmp}, env, 10*time.Minute)
			}
		}
	}
	for _, d := range w.Docs {
		if docType(d) == "replay" {
			var rep bool
			json.Unmarshal(d["reproduced"], &rep)
			if !rep {
				if ok, info := c.confirmSlice(v); ok {
					return true, info
				}
			}
			return rep, string(mustMarshal(d))
		}
	}
	return false, describeFailure(w)
}

// confirmSlice is the second way to replay an ordersim finding: the minimised
// case alone did not show the difference in a fresh process, so the difference
// depends on what the finding process had done before. The worker is seeded, so
// executing the same slice of cases up to the failing index again, in a fresh
// process, must find the same violation at the same index.
func (c *checkCtx) confirmSlice(v Violation) (bool, string) {
	var doc struct {
		Seed  uint64 `json:"seed"`
		Slice *struct {
			From   int    `json:"from"`
			Stride int    `json:"stride"`
			Index  int    `json:"index"`
			Tier   string `json:"tier"`
		} `json:"process_slice"`
	}
	if json.Unmarshal(v.Replay, &doc) != nil || doc.Slice == nil || doc.Slice.Stride <= 0 {
		return false, ""
	}
	sl := doc.Slice
	args := []string{"c14", "-seed", strconv.FormatUint(doc.Seed, 10), "-from", strconv.Itoa(sl.From), "-to", strconv.Itoa(sl.Index + 1),
		"-stride", strconv.Itoa(sl.Stride), "-tier", sl.Tier, "-k", "0"}
	w := runWorker(c.S.Plain, args, []string{"GOMAXPROCS=1"}, 45*time.Minute)
	for _, d := range w.Docs {
		if docType(d) != "violation" {
			continue
		}
		var got Violation
		json.Unmarshal(mustMarshal(d), &got)
		if got.Key == v.Key && got.Index == sl.Index {
			return true, fmt.Sprintf("reproduced by re-executing the seeded slice of cases (worker %s) in a fresh process: %s", strings.Join(args, " "), got.Detail)
		}
	}
	return false, "the seeded slice did not reproduce it either"
}

func mustMarshal(v interface{}) []byte {
	b, _ := json.Marshal(v)
	return b
}

// report handles one violation document from a worker: store the replay file,
// confirm it in a fresh process, then print VIOLATION or KNOWN-FINDING.
func (c *checkCtx) report(v Violation) {
	if c.seen == nil {
		c.seen = map[string]int{}
	}
	c.seen[v.Key]++
	if c.seen[v.Key] > 1 {
		return // same finding again (another input / seed); reported once
	}
	path, err := writeReplay(c.Root, v)
	if err != nil {
		c.infraf("cannot write replay: %v", err)
		return
	}
	ok, info := c.confirm(v)
	if !ok {
		c.infraf("violation %s did not reproduce from its replay file %s in a fresh process (not reported as a violation): %s", v.Key, path, tail(info, 1500))
		return
	}
	if k := matchKnown(c.Known, v); k != nil {
		c.nKnown++
		fmt.Printf("KNOWN-FINDING: property=%s %s\n", v.Property, k.Text)
		os.Remove(path)
		return
	}
	c.nViol++
	c.replays = append(c.replays, path)
	fmt.Printf("VIOLATION property=%s replay=%s\n", v.Property, path)
	fmt.Printf("  kind=%s key=%s\n  %s\n", v.Kind, v.Key, v.Detail)
}

// reportConfirmed prints a violation whose reproduction has already been established.
func (c *checkCtx) reportConfirmed(v Violation) {
	if c.seen == nil {
		c.seen = map[string]int{}
	}
	c.seen[v.Key]++
	if c.seen[v.Key] > 1 {
		return
	}
	path, err := writeReplay(c.Root, v)
	if err != nil {
		c.infraf("cannot write replay: %v", err)
		return
	}
	if k := matchKnown(c.Known, v); k != nil {
		c.nKnown++
		fmt.Printf("KNOWN-FINDING: property=%s %s\n", v.Property, k.Text)
		os.Remove(path)
		return
	}
	c.nViol++
	c.replays = append(c.replays, path)
	fmt.Printf("VIOLATION property=%s replay=%s\n", v.Property, path)
	fmt.Printf("  kind=%s key=%s\n  %s\n", v.Kind, v.Key, v.Detail)
}

func (c *checkCtx) exitCode() int {
	if c.nViol > 0 {
		return 1
	}
	if len(c.infra) > 0 {
		return 2
	}
	return 0
}

type Evidence struct {
	PropertyID  string                 `json:"property_id"`
	Tier        string                 `json:"tier"`
	Seed        uint64                 `json:"seed"`
	Level       string                 `json:"level"`
	Coverage    map[string]interface{} `json:"coverage"`
	Assumptions []string               `json:"assumptions"`
	WallS       float64                `json:"wall_s"`
	Violations  int                    `json:"violations"`
}

func (c *checkCtx) writeEvidence(level string, cov map[string]interface{}, assumptions []string) {
	cov["instrumentation"] = map[string]interface{}{
		"yield_sites":               c.S.Report.NSites,
		"store_flagged_sites":       c.S.Report.NStore,
		"order_seams":               c.S.Report.OrderSeams,
		"unseamed_order_sites":      nonNil(c.S.Report.Unseamed),
		"clock_seams":               nonNil(c.S.Report.ClockSeams),
		"rand_seams":                nonNil(c.S.Report.RandSeams),
		"modelled_blocking_sites":   nonNil(c.S.Report.Modelled),
		"unmodelled_blocking_sites": nonNil(c.S.Report.Unmodelled),
		"files":                     c.S.Report.Files,
		"fidelity":                  "the repository's own test suite passes on the instrumented copy with -tags verif (simulator inactive)",
	}
	cov["components"] = map[string]interface{}{
		"real":           []string{"github.com/hashicorp/go-bexpr", "github.com/hashicorp/go-bexpr/grammar", "github.com/mitchellh/pointerstructure", "github.com/mitchellh/mapstructure", "reflect", "regexp", "strconv"},
		"stubbed":        []string{},
		"simulator_owns": []string{"caller goroutine choice (cooperative scheduler)", "map iteration order", "value-transformation hook failure", "parse budget", "forced GC", "caller-side mutation of data"},
	}
	cov["timing_s"] = c.S.Timing
	if c.detSlice != "" {
		cov["determinism_slice"] = c.detSlice
	}
	cov["known_findings_matched"] = c.nKnown
	cov["infra_problems"] = nonNil(c.infra)
	cov["replay_files"] = nonNil(c.replays)
	cov["violation_keys_seen"] = c.seen
	ev := Evidence{PropertyID: c.ID, Tier: c.Tier, Seed: c.Seed, Level: level, Coverage: cov, Assumptions: assumptions,
		WallS: time.Since(c.T0).Seconds(), Violations: c.nViol}
	if err := writeJSON(c.evidencePath(), ev); err != nil {
		c.infraf("cannot write evidence: %v", err)
	}
}

func nonNil(s []string) []string {
	if s == nil {
		return []string{}
	}
	return s
}

func envSeed() uint64 {
	if s := os.Getenv("VERIF_SEED"); s != "" {
		if n, err := strconv.ParseUint(s, 10, 64); err == nil {
			return n % (1 << 53)
		}
	}
	return 20261002
}

func runCheck(args []string) int {
	if len(args) < 1 {
		fmt.Fprintln(os.Stderr, "usage: vcheck check <id> [--tier quick|thorough] [--seed N]")
		return 2
	}
	c := &checkCtx{ID: args[0], Tier: "quick", Seed: envSeed(), Root: verifRoot(), T0: time.Now(), Par: runtime.NumCPU()}
	if t := os.Getenv("VERIF_TIER"); t == "quick" || t == "thorough" {
		c.Tier = t
	}
	for i := 1; i < len(args); i++ {
		switch args[i] {
		case "--tier":
			if i+1 < len(args) {
				c.Tier = args[i+1]
				i++
			}
		case "--seed":
			if i+1 < len(args) {
				if n, err := strconv.ParseUint(args[i+1], 10, 64); err == nil {
					c.Seed = n % (1 << 53)
				}
				i++
			}
		}
	}
	if c.Tier != "quick" && c.Tier != "thorough" {
		fmt.Fprintln(os.Stderr, "bad tier", c.Tier)
		return 2
	}
	if c.Par > 16 {
		c.Par = 16
	}
	c.Known = loadKnown(c.Root)
	fmt.Printf("vcheck %s tier=%s VERIF_SEED=%d repo=%s\n", c.ID, c.Tier, c.Seed, repoRoot())
	var fn func(*checkCtx) int
	opts := prepOpts{fidelity: true}
	switch c.ID {
	case "C11":
		fn = checkC11
		opts.pure = true
	case "C14":
		fn = checkC14
		opts.pure = true
	case "C13":
		fn = checkC13
		opts.pure = true
	case "C12":
		fn = checkC12
		opts.race = true
	default:
		fmt.Fprintf(os.Stderr, "property %s is not claimed by this machinery (see MANIFEST.json not_applicable)\n", c.ID)
		return 2
	}
	s, err := prepare(opts)
	if err != nil {
		fmt.Fprintln(os.Stderr, "INFRA: cannot build the instrumented copy / workers:", err)
		return 2
	}
	c.S = s
	defer s.Remove()
	if c.Tier == "thorough" {
		c.determinismSlice()
	}
	code := fn(c)
	fmt.Printf("vcheck %s done: exit=%d violations=%d known=%d wall=%.1fs evidence=%s\n", c.ID, code, c.nViol, c.nKnown, time.Since(c.T0).Seconds(), c.evidencePath())
	return code
}

// determinismSlice (thorough tier): the engine's worker is run in fresh
// processes at GOMAXPROCS 1 and 4 (twice each) on a small seeded slice; the
// result documents must be byte-identical, otherwise nothing the engine says
// is believed (exit 2).
func (c *checkCtx) determinismSlice() {
	seed := strconv.FormatUint(c.Seed+99, 10)
	var args []string
	var types []string
	switch c.ID {
	case "C11":
		args, types = []string{"c11", "-seed", seed, "-from", "70", "-to", "86", "-tier", "quick"}, []string{"summary", "violation"}
	case "C14":
		args, types = []string{"c14", "-seed", seed, "-from", "0", "-to", "160", "-k", "4"}, []string{"summary", "violation"}
	case "C13":
		args, types = []string{"sched-genexec", "-k", "13", "-seed", seed, "-from", "0", "-to", "48"}, []string{"result", "violation"}
	case "C12":
		args, types = []string{"sched-genexec", "-k", "12", "-seed", seed, "-from", "0", "-to", "64"}, []string{"result", "violation"}
	default:
		return
	}
	var ref uint64
	var refN, runs int
	for _, gp := range []string{"1", "4", "1", "4"} {
		w := runWorker(c.S.Plain, args, []string{"GOMAXPROCS=" + gp}, 10*time.Minute)
		if w.ExitCode != 0 {
			c.infraf("determinism slice: %s", describeFailure(w))
			return
		}
		d, n := digestDocs(w, types...)
		if runs == 0 {
			ref, refN = d, n
		} else if d != ref || n != refN {
			c.infraf("determinism slice FAILED: the same seed gave different result documents in two fresh processes (GOMAXPROCS=%s): %x/%d vs %x/%d", gp, d, n, ref, refN)
			return
		}
		runs++
	}
	c.detSlice = fmt.Sprintf("%d fresh worker processes (GOMAXPROCS 1,4,1,4) on a seeded slice produced byte-identical result documents (%d documents, digest %x)", runs, refN, ref)
}
