#!/bin/sh
# Builds the driver (bin/vcheck) from files on disk only; offline.
set -e
cd "$(dirname "$0")"
export GOFLAGS=-mod=mod GOPROXY=off GOSUMDB=off GOTOOLCHAIN=local
mkdir -p bin evidence replays
go build -o bin/vcheck ./cmd/vcheck
# warm the build cache for std under -race so that later checks are fast
bin/vcheck warmup || true
