package engine

import (
	"fmt"
	"reflect"
	"regexp"
	"sort"
	"strings"

	"verif.local/verif/simlib/plan"
)

// PathInfo is one selectable path of a datum, found by walking it the way
// pointerstructure does.
type PathInfo struct {
	Parts []string
	Cat   string // bool int uint float string slice map struct nil other
	Val   reflect.Value
}

func catOf(v reflect.Value) string {
	if !v.IsValid() {
		return "nil"
	}
	switch v.Kind() {
	case reflect.Bool:
		return "bool"
	case reflect.Int, reflect.Int8, reflect.Int16, reflect.Int32, reflect.Int64:
		return "int"
	case reflect.Uint, reflect.Uint8, reflect.Uint16, reflect.Uint32, reflect.Uint64:
		return "uint"
	case reflect.Float32, reflect.Float64:
		return "float"
	case reflect.String:
		return "string"
	case reflect.Slice, reflect.Array:
		return "slice"
	case reflect.Map:
		return "map"
	case reflect.Struct:
		return "struct"
	}
	return "other"
}

func fieldName(f reflect.StructField, tag string) (string, bool) {
	if f.PkgPath != "" {
		return "", false
	}
	t := f.Tag.Get(tag)
	if i := strings.IndexByte(t, ','); i >= 0 {
		t = t[:i]
	}
	if t == "-" {
		return "", false
	}
	if t != "" {
		return t, true
	}
	return f.Name, true
}

// EnumPaths lists the paths reachable from root (relative, without prefix).
func EnumPaths(root reflect.Value, tag string, maxDepth int) []PathInfo {
	if tag == "" {
		tag = "bexpr"
	}
	var out []PathInfo
	var walk func(v reflect.Value, parts []string, depth int)
	walk = func(v reflect.Value, parts []string, depth int) {
		v = deref(v)
		if v.IsValid() && (v.Kind() == reflect.Ptr || v.Kind() == reflect.Interface) {
			v = reflect.Value{} // nil pointer / nil interface
		}
		if len(parts) > 0 {
			out = append(out, PathInfo{Parts: append([]string(nil), parts...), Cat: catOf(v), Val: v})
		}
		if depth >= maxDepth || !v.IsValid() {
			return
		}
		switch v.Kind() {
		case reflect.Struct:
			for i := 0; i < v.NumField(); i++ {
				if n, ok := fieldName(v.Type().Field(i), tag); ok {
					walk(v.Field(i), append(parts, n), depth+1)
				}
			}
		case reflect.Map:
			keys := v.MapKeys()
			sort.Slice(keys, func(i, j int) bool { return fmt.Sprint(keys[i]) < fmt.Sprint(keys[j]) })
			for i, k := range keys {
				if i >= 4 {
					break
				}
				walk(v.MapIndex(k), append(parts, fmt.Sprint(k.Interface())), depth+1)
			}
		case reflect.Slice, reflect.Array:
			for i := 0; i < v.Len() && i < 2; i++ {
				walk(v.Index(i), append(parts, fmt.Sprint(i)), depth+1)
			}
		}
	}
	walk(root, nil, 0)
	return out
}

var identRe = regexp.MustCompile(`^[a-zA-Z][a-zA-Z0-9_/]*$`)
var digitsRe = regexp.MustCompile(`^[0-9]+$`)
var ptrSegRe = regexp.MustCompile(`^[\pL\pN\-_.~:|]+$`)

var reservedWords = map[string]bool{"and": true, "or": true, "not": true, "in": true, "is": true, "as": true, "any": true, "all": true,
	"contains": true, "matches": true, "empty": true}

// ExprGen derives expressions of the bexpr grammar whose selectors exist (or
// deliberately do not) in a given datum.
type ExprGen struct {
	R    *plan.Rand
	Tag  string
	Uniq string
	varN int
	// shadow: identifier-safe top-level keys of the datum, candidates for
	// placeholder names that collide with selectors
	shadow []string
}

func (g *ExprGen) quote(s string) string {
	if !strings.ContainsAny(s, "`") && g.R.Chance(0.3) {
		return "`" + s + "`"
	}
	return `"` + strings.ReplaceAll(strings.ReplaceAll(s, `\`, `\\`), `"`, `\"`) + `"`
}

// selector renders parts in one of the three spellings.
func (g *ExprGen) selector(parts []string) string {
	if len(parts) == 0 {
		return "nothing"
	}
	if len(parts) > 0 && g.R.Chance(0.04) {
		// a selector spelled in another case than the key it aims at
		parts = append([]string(nil), parts...)
		i := g.R.Intn(len(parts))
		switch g.R.Intn(3) {
		case 0:
			parts[i] = strings.ToUpper(parts[i])
		case 1:
			parts[i] = strings.ToLower(parts[i])
		default:
			parts[i] = strings.Title(strings.ToLower(parts[i]))
		}
	}
	okPtr := true
	for _, p := range parts {
		if !ptrSegRe.MatchString(p) {
			okPtr = false
		}
	}
	if okPtr && g.R.Chance(0.3) {
		return `"/` + strings.Join(parts, "/") + `"`
	}
	first := parts[0]
	if !identRe.MatchString(first) {
		if okPtr {
			return `"/` + strings.Join(parts, "/") + `"`
		}
		return "nothing"
	}
	var b strings.Builder
	b.WriteString(first)
	for _, p := range parts[1:] {
		switch {
		case (identRe.MatchString(p) || digitsRe.MatchString(p)) && g.R.Chance(0.75):
			b.WriteString("." + p)
		case strings.ContainsAny(p, "\"\\"):
			b.WriteString("[`" + p + "`]")
		default:
			b.WriteString(`["` + p + `"]`)
		}
	}
	return b.String()
}

var regexPool = []string{`^a`, `a+`, `^(foo|bar)`, `.*`, `[0-9]+`, `^web-[0-9]$`, `(`, `^$`, `b.r`, `^[a-z]+$`, `(?i)FOO`, `\pL+`, `o`, `^.{0,3}$`}

func (g *ExprGen) strLit(sample string, hit bool) string {
	if hit {
		return g.quote(sample)
	}
	w := g.R.Pick(words)
	if g.Uniq != "" && g.R.Chance(0.3) {
		w = w + g.Uniq
	}
	return g.quote(w)
}

func (g *ExprGen) numLit(cat string, v reflect.Value, hit bool) string {
	if g.R.Chance(0.05) {
		return g.R.Pick([]string{`"abc"`, `1.5`, `-0`, `999999999999999999999`, `true`, "`x`", `0x10`})
	}
	switch cat {
	case "int":
		if hit && v.IsValid() {
			return fmt.Sprint(v.Int())
		}
		return fmt.Sprint(g.R.Range(-3, 12))
	case "uint":
		if hit && v.IsValid() {
			return fmt.Sprint(v.Uint())
		}
		return fmt.Sprint(g.R.Range(0, 50))
	default:
		if hit && v.IsValid() {
			return trimFloat(v.Float())
		}
		return trimFloat(float64(g.R.Range(-20, 50)) / 4)
	}
}

func trimFloat(f float64) string {
	s := fmt.Sprintf("%.4f", f)
	s = strings.TrimRight(s, "0")
	if strings.HasSuffix(s, ".") {
		s += "0"
	}
	return s
}

type scopePath struct {
	PathInfo
	prefix []string // bound variable (or nothing) that replaces the root
}

func (s scopePath) full() []string { return append(append([]string(nil), s.prefix...), s.Parts...) }

// leaf renders one match expression on path p.
func (g *ExprGen) leaf(p scopePath, depth int) string {
	sel := g.selector(p.full())
	hit := g.R.Chance(0.5)
	neg := g.R.Chance(0.3)
	switch p.Cat {
	case "bool":
		lit := "true"
		if (p.Val.IsValid() && p.Val.Bool()) != hit {
			lit = "false"
		}
		if neg {
			return sel + " != " + lit
		}
		return sel + " == " + lit
	case "int", "uint", "float":
		op := " == "
		if neg {
			op = " != "
		}
		if g.R.Chance(0.1) {
			return sel + g.R.Pick([]string{" is empty", " is not empty", ` matches "1"`, ` contains 1`})
		}
		return sel + op + g.numLit(p.Cat, p.Val, hit)
	case "string":
		s := ""
		if p.Val.IsValid() {
			s = p.Val.String()
		}
		switch g.R.Intn(8) {
		case 0, 1:
			if neg {
				return sel + " != " + g.strLit(s, hit)
			}
			return sel + " == " + g.strLit(s, hit)
		case 2:
			sub := s
			if len(s) > 1 && hit {
				sub = s[:1+g.R.Intn(len(s)-1)]
				if !isValidUTF8Cut(s, len(sub)) {
					sub = s
				}
			}
			if neg {
				return g.strLit(sub, hit) + " not in " + sel
			}
			return g.strLit(sub, hit) + " in " + sel
		case 3:
			if neg {
				return sel + " not contains " + g.strLit(s, hit)
			}
			return sel + " contains " + g.strLit(s, hit)
		case 4, 5:
			re := g.R.Pick(regexPool)
			if hit && s != "" && identRe.MatchString(s) {
				re = "^" + s[:1] + ".*"
			}
			if g.Uniq != "" && g.R.Chance(0.5) {
				re = re + "|" + strings.TrimLeft(g.Uniq, "-_")
			}
			if neg {
				return sel + " not matches " + g.quote(re)
			}
			return sel + " matches " + g.quote(re)
		case 6:
			if neg {
				return sel + " is not empty"
			}
			return sel + " is empty"
		default:
			return sel + " == " + g.numLit("int", reflect.Value{}, false)
		}
	case "slice":
		if depth > 0 && g.R.Chance(0.45) {
			return "( " + g.quantifier(p, depth) + " )"
		}
		if p.Val.IsValid() && (p.Val.Kind() == reflect.Slice || p.Val.Kind() == reflect.Array) && p.Val.Type().Elem().Kind() == reflect.Uint8 && g.R.Chance(0.6) {
			// []byte values (and fixed-size byte arrays) are matched as text
			re := g.R.Pick(regexPool)
			var b []byte
			if p.Val.Kind() == reflect.Slice {
				b = p.Val.Bytes()
			} else {
				for i := 0; i < p.Val.Len(); i++ {
					b = append(b, byte(p.Val.Index(i).Uint()))
				}
			}
			if hit && len(b) >= 4 {
				// anchored on the current contents: an in-place edit of the buffer flips it
				re = "^" + regexp.QuoteMeta(string(b[:2+g.R.Intn(3)]))
			}
			if neg {
				return sel + " not matches " + g.quote(re)
			}
			return sel + " matches " + g.quote(re)
		}
		elemLit := `"a"`
		if p.Val.IsValid() && p.Val.Len() > 0 {
			e := deref(p.Val.Index(g.R.Intn(p.Val.Len())))
			switch catOf(e) {
			case "int", "uint", "float":
				elemLit = g.numLit(catOf(e), e, hit)
			case "string":
				elemLit = g.strLit(e.String(), hit)
			case "bool":
				elemLit = fmt.Sprint(e.Bool())
			}
		} else if g.R.Chance(0.5) {
			elemLit = fmt.Sprint(g.R.Range(0, 5))
		}
		if g.R.Chance(0.06) {
			// index spellings that are legal selector text but not plain indexes:
			// negative, padded, signed, hexadecimal, out of range
			odd := g.R.Pick([]string{"-1", "-2", "01", "+1", "0x1", "999999", "1e0", "00"})
			return g.selector(append(p.full(), odd)) + " == " + elemLit
		}
		switch g.R.Intn(6) {
		case 0, 1:
			if neg {
				return elemLit + " not in " + sel
			}
			return elemLit + " in " + sel
		case 2:
			return sel + " contains " + elemLit
		case 3:
			if neg {
				return sel + " is not empty"
			}
			return sel + " is empty"
		case 4:
			return sel + " == " + elemLit
		default:
			return sel + ".0" + " == " + elemLit
		}
	case "map":
		if depth > 0 && g.R.Chance(0.5) {
			return "( " + g.quantifier(p, depth) + " )"
		}
		key := g.R.Pick(keyWords)
		if p.Val.IsValid() && p.Val.Len() > 0 && hit {
			ks := p.Val.MapKeys()
			sort.Slice(ks, func(i, j int) bool { return fmt.Sprint(ks[i]) < fmt.Sprint(ks[j]) })
			key = fmt.Sprint(ks[g.R.Intn(len(ks))].Interface())
		}
		switch g.R.Intn(5) {
		case 0, 1:
			if neg {
				return g.quote(key) + " not in " + sel
			}
			return g.quote(key) + " in " + sel
		case 2:
			if neg {
				return sel + " is not empty"
			}
			return sel + " is empty"
		case 3:
			// a key that is absent: the documented not-present table
			return g.selector(append(p.full(), "nokey")) + g.R.Pick([]string{" == 1", " != 1", " is empty", " is not empty", ` matches "x"`, ` not matches "x"`}) + ""
		default:
			return sel + " contains " + g.quote(key)
		}
	default: // struct, nil, other
		switch g.R.Intn(4) {
		case 0:
			return sel + " == 1"
		case 1:
			return g.selector(append(p.full(), "nope")) + " == 1"
		case 2:
			return `"x" in ` + sel
		default:
			return sel + ` matches "a"`
		}
	}
}

func isValidUTF8Cut(s string, n int) bool {
	if n >= len(s) {
		return true
	}
	return s[n]&0xC0 != 0x80
}

func (g *ExprGen) newVar() string {
	g.varN++
	if len(g.shadow) > 0 && g.R.Chance(0.2) {
		// a placeholder named like a top-level key of the datum: inside the body it
		// shadows that key, outside (and in later calls) it must not
		return g.shadow[g.R.Intn(len(g.shadow))]
	}
	return fmt.Sprintf("%s%d", g.R.Pick([]string{"v", "e", "item", "k", "w"}), g.varN)
}

// quantifier renders any/all over the collection at p with a body over the
// element type.
func (g *ExprGen) quantifier(p scopePath, depth int) string {
	op := "any"
	if g.R.Chance(0.5) {
		op = "all"
	}
	sel := g.selector(p.full())
	isMap := p.Cat == "map"
	var elem reflect.Value
	var firstKey string
	if p.Val.IsValid() && p.Val.Len() > 0 {
		if isMap {
			ks := p.Val.MapKeys()
			sort.Slice(ks, func(i, j int) bool { return fmt.Sprint(ks[i]) < fmt.Sprint(ks[j]) })
			k := ks[g.R.Intn(len(ks))]
			firstKey = fmt.Sprint(k.Interface())
			elem = p.Val.MapIndex(k)
		} else {
			elem = p.Val.Index(g.R.Intn(p.Val.Len()))
		}
	}
	if !isMap && p.Val.IsValid() && p.Val.Len() > 8 && g.R.Chance(0.6) {
		if e := g.scan(p, op, sel); e != "" {
			return e
		}
	}
	kv, vv := g.newVar(), g.newVar()
	mode := g.R.Intn(4) // 0 default, 1 k,v  2 k,_  3 _,v
	var binding string
	var scope []scopePath
	valueScope := func(name string) {
		e := deref(elem)
		scope = append(scope, scopePath{PathInfo: PathInfo{Parts: nil, Cat: catOf(e), Val: e}, prefix: []string{name}})
		for _, ep := range EnumPaths(elem, g.Tag, 2) {
			scope = append(scope, scopePath{PathInfo: ep, prefix: []string{name}})
		}
	}
	keyScope := func(name string) {
		if isMap {
			scope = append(scope, scopePath{PathInfo: PathInfo{Cat: "string", Val: reflect.ValueOf(firstKey)}, prefix: []string{name}})
		} else {
			scope = append(scope, scopePath{PathInfo: PathInfo{Cat: "int", Val: reflect.ValueOf(0)}, prefix: []string{name}})
		}
	}
	switch mode {
	case 0:
		binding = vv
		if isMap {
			keyScope(vv)
		} else {
			valueScope(vv)
		}
	case 1:
		binding = kv + ", " + vv
		keyScope(kv)
		valueScope(vv)
	case 2:
		binding = kv + ", _"
		keyScope(kv)
	default:
		binding = "_, " + vv
		valueScope(vv)
	}
	if g.R.Chance(0.03) {
		binding = vv + ", " + vv // same placeholder twice: documented error
	}
	body := g.tree(scope, depth-1, 2)
	return fmt.Sprintf("%s %s as %s { %s }", op, sel, binding, body)
}

// scan renders a quantifier that has to walk a long list up to one particular
// element: any ... { v == <element j> } or all ... { v != <element j> }, so that
// skipping, repeating or mis-addressing any element before j matters.
func (g *ExprGen) scan(p scopePath, op, sel string) string {
	j := g.R.Intn(p.Val.Len())
	e := deref(p.Val.Index(j))
	vv := g.newVar()
	lhs := vv
	switch catOf(e) {
	case "struct":
		// first exported scalar field
		found := false
		st := e
		for i := 0; i < st.NumField() && !found; i++ {
			if n, ok := fieldName(st.Type().Field(i), g.Tag); ok {
				switch catOf(st.Field(i)) {
				case "int", "string":
					lhs, e, found = vv+"."+n, st.Field(i), true
				}
			}
		}
		if !found {
			return ""
		}
	case "int", "uint", "float", "string":
	default:
		return ""
	}
	var lit string
	switch catOf(e) {
	case "string":
		lit = g.quote(e.String())
	case "int":
		lit = fmt.Sprint(e.Int())
	case "uint":
		lit = fmt.Sprint(e.Uint())
	default:
		lit = trimFloat(e.Float())
	}
	binding := []string{vv, "_, " + vv, g.newVar() + ", " + vv}[g.R.Intn(3)]
	if op == "any" {
		return fmt.Sprintf("any %s as %s { %s == %s }", sel, binding, lhs, lit)
	}
	return fmt.Sprintf("all %s as %s { %s != %s }", sel, binding, lhs, lit)
}

// tree renders a boolean combination of leaves over scope.
func (g *ExprGen) tree(scope []scopePath, depth int, width int) string {
	if len(scope) == 0 {
		return "nothing == 1"
	}
	pick := func() scopePath { return scope[g.R.Intn(len(scope))] }
	if width <= 0 || g.R.Chance(0.45) {
		p := pick()
		if g.R.Chance(0.05) {
			p = scopePath{PathInfo: PathInfo{Parts: []string{g.R.Pick([]string{"missing", "Nope", "secret", "Skip", "hidden"})}, Cat: "other"}, prefix: p.prefix}
		}
		return g.leaf(p, depth)
	}
	switch g.R.Intn(6) {
	case 0:
		return "not " + g.tree(scope, depth, width-1)
	case 1, 2:
		return g.tree(scope, depth, width-1) + " and " + g.tree(scope, depth, width-1)
	case 3, 4:
		return g.tree(scope, depth, width-1) + " or " + g.tree(scope, depth, width-1)
	default:
		return "( " + g.tree(scope, depth, width-1) + " )"
	}
}

// Gen renders an expression over the datum root.
func (g *ExprGen) Gen(root interface{}, qdepth int, width int) string {
	var scope []scopePath
	g.shadow = nil
	for _, p := range EnumPaths(reflect.ValueOf(root), g.Tag, 3) {
		scope = append(scope, scopePath{PathInfo: p})
		if len(p.Parts) == 1 && identRe.MatchString(p.Parts[0]) && !reservedWords[p.Parts[0]] {
			g.shadow = append(g.shadow, p.Parts[0])
		}
	}
	e := g.tree(scope, qdepth, width)
	if g.R.Chance(0.02) {
		// a very long expression: dozens of terms, several kilobytes
		parts := []string{e}
		for n := g.R.Range(20, 90); n > 0; n-- {
			parts = append(parts, g.tree(scope, 0, 0))
		}
		e = strings.Join(parts, []string{" and ", " or "}[g.R.Intn(2)])
	}
	// layout variations that Expression() must preserve byte for byte
	switch g.R.Intn(10) {
	case 0:
		e = "  " + e + " \t"
	case 1:
		e = "(" + e + ")"
	case 2:
		e = "\n" + e + "\n"
	}
	return e
}

// GenQuantified forces a top-level quantifier when the datum has a collection.
func (g *ExprGen) GenQuantified(root interface{}, qdepth int) string {
	var colls []scopePath
	g.shadow = nil
	for _, p := range EnumPaths(reflect.ValueOf(root), g.Tag, 3) {
		if p.Cat == "map" || p.Cat == "slice" {
			colls = append(colls, scopePath{PathInfo: p})
		}
		if len(p.Parts) == 1 && identRe.MatchString(p.Parts[0]) && !reservedWords[p.Parts[0]] {
			g.shadow = append(g.shadow, p.Parts[0])
		}
	}
	if len(colls) == 0 {
		return g.Gen(root, qdepth, 2)
	}
	return g.quantifier(colls[g.R.Intn(len(colls))], qdepth)
}

// SyntheticRoot is a datum-free vocabulary for parser-only workloads (C11).
func SyntheticRoot(r *plan.Rand) interface{} {
	return Build(DatumSpec{Gen: []string{"doc", "json", "tmap:any", "odd"}[r.Intn(4)], Seed: r.Uint64()})
}
