package engine

import (
	"encoding/json"
	"fmt"
	"os"
	"reflect"
	"runtime"
	"sort"
	"strings"
	"sync"
	"time"

	"verif.local/verif/simlib/plan"
	"verif.local/verifsim"
)

// ---- simsched: C12 and C13 ---------------------------------------------------
//
// Callers of shared evaluators are the "nodes". Each is a real goroutine, but
// only one runs at a time and the plan decides which (see verifsim). C13 is the
// k = 1 case: one caller, long histories, faults injected inside operations.

type opRec struct {
	Out       Outcome `json:"out"`
	Steps     int     `json:"steps"`
	StoreOffs []int   `json:"-"`
	SyncOffs  []int   `json:"-"`
	NDec      int     `json:"-"`
	HookFired bool    `json:"-"`
	Invoke    uint64  `json:"-"`
	Return    uint64  `json:"-"`
	DatumDiff string  `json:"-"`
	ExprDiff  string  `json:"-"`
	Ran       bool    `json:"-"`
	// the value an Execute returned, its fingerprint at return time, and what a
	// second look at the end of the run found changed ("" = still the same)
	res      interface{}
	resCanon string
	ResDiff  string `json:"-"`
}

type passResult struct {
	Recs      [][]opRec
	Stats     verifsim.Stats
	DataDiff  []string // per datum: description of a change across the concurrent run ("" = unchanged)
	Log       []verifsim.SwitchEvent
	TotalStep uint64
	LibGo     int // goroutines the library started during the pass
	LibChan   int // channel operations of the library under the scheduler
}

type runEnv struct {
	p     *plan.SchedPlan
	specs []DatumSpec // current datum specs (Muts grow with mutate ops)
	data  []interface{}
	objs  []*Object
}

func newEnv(p *plan.SchedPlan) *runEnv {
	e := &runEnv{p: p}
	e.specs = make([]DatumSpec, len(p.Data))
	for i, d := range p.Data {
		d.Muts = append([]uint64(nil), d.Muts...)
		e.specs[i] = d
	}
	return e
}

func (e *runEnv) buildShared() {
	e.data = make([]interface{}, len(e.specs))
	for i, d := range e.specs {
		e.data[i] = Build(d)
	}
	e.objs = make([]*Object, len(e.p.Objects))
	for i, s := range e.p.Objects {
		if s.CopyOf == 0 {
			e.objs[i] = NewObject(s)
		}
	}
	for i, s := range e.p.Objects {
		// by-value copies are made before anything is used
		if s.CopyOf > 0 {
			if src := s.CopyOf - 1; src < len(e.objs) && e.objs[src] != nil {
				e.objs[i] = e.objs[src].ShallowCopy()
			} else {
				e.objs[i] = NewObject(s)
			}
		}
	}
	for i, s := range e.p.Objects {
		if i < len(e.p.Primed) && e.p.Primed[i] {
			// steady state: one call on a private copy of every datum before sharing
			for _, d := range e.specs {
				x := Build(d)
				if s.Kind == "filter" {
					e.objs[i].Execute(x)
				} else {
					e.objs[i].Evaluate(x)
				}
			}
		}
	}
}

func datumAt(e *runEnv, i int) interface{} {
	if i < 0 || i >= len(e.data) {
		return nil
	}
	return e.data[i]
}

// specOf returns the ObjSpec an op works on.
func specOf(p *plan.SchedPlan, task []plan.SOp, op plan.SOp) (ObjSpec, bool) {
	if op.Local {
		n := 0
		for _, o := range task {
			if o.Kind == "create" && o.New != nil {
				if n == op.Obj {
					return *o.New, true
				}
				n++
			}
		}
		return ObjSpec{}, false
	}
	if op.Obj < 0 || op.Obj >= len(p.Objects) {
		return ObjSpec{}, false
	}
	return p.Objects[op.Obj], true
}

// doOp executes one operation on live objects. checkDatum enables the
// before/after fingerprint (single caller only: with several callers the shared
// data are fingerprinted around the whole run instead).
func (e *runEnv) doOp(t int, op plan.SOp, locals *[]*Object, checkDatum bool) opRec {
	rec := opRec{Ran: true}
	ctx := &verifsim.OpCtx{Obj: -1, Tape: op.Tape, HookFailAt: op.FailAt, RecStores: true, Limit: 1 << 20, ClockJumps: op.Jumps, RandSeed: uint64(t*1000 + 7)}
	var obj *Object
	if op.Kind == "eval" || op.Kind == "exec" || op.Kind == "expr" {
		if op.Local {
			if op.Obj >= 0 && op.Obj < len(*locals) {
				obj = (*locals)[op.Obj]
			}
		} else if op.Obj >= 0 && op.Obj < len(e.objs) {
			obj = e.objs[op.Obj]
			ctx.Obj = op.Obj
		}
		if obj == nil {
			rec.Out = Outcome{Op: op.Kind, Skip: true}
			return rec
		}
	}
	var before string
	datum := datumAt(e, op.Datum)
	if checkDatum && (op.Kind == "eval" || op.Kind == "exec") {
		before = Canon(datum, true)
	}
	rec.Invoke = verifsim.Steps()
	verifsim.BeginOp(ctx)
	switch op.Kind {
	case "eval":
		rec.Out = obj.Evaluate(datum)
	case "exec":
		rec.Out, rec.res = obj.ExecuteRaw(datum)
		if rec.res != nil {
			if op.Scribble != 0 && obj.Fl != nil {
				scribble(rec.res, datum, op.Scribble)
			}
			rec.resCanon = Canon(rec.res, false)
		}
	case "expr":
		rec.Out = obj.Expression()
		if !rec.Out.Skip && rec.Out.Value != obj.Spec.Expr {
			rec.ExprDiff = fmt.Sprintf("Expression() = %q, created from %q", rec.Out.Value, obj.Spec.Expr)
		}
	case "create":
		o := NewObject(*op.New)
		*locals = append(*locals, o)
		rec.Out = o.CreateOutcome()
	case "mutate":
		if op.Datum >= 0 && op.Datum < len(e.data) {
			Mutate(e.data[op.Datum], op.Mut)
			e.specs[op.Datum].Muts = append(e.specs[op.Datum].Muts, op.Mut)
		}
		rec.Out = Outcome{Op: "mutate"}
	case "gc":
		runtime.GC()
		runtime.GC()
		rec.Out = Outcome{Op: "gc"}
	default:
		rec.Out = Outcome{Op: op.Kind, Skip: true}
	}
	verifsim.EndOp()
	if ctx.ChildPanic != "" && rec.Out.Panic == "" {
		rec.Out.Panic = normErr(ctx.ChildPanic)
	}
	rec.Return = verifsim.Steps()
	rec.Steps = ctx.Steps
	rec.StoreOffs = ctx.StoreOffs
	rec.SyncOffs = ctx.SyncOffs
	rec.NDec = ctx.NDecisions
	rec.HookFired = ctx.HookFired
	if before != "" {
		if after := Canon(datum, true); after != before {
			rec.DatumDiff = firstDiff(before, after)
		}
	}
	return rec
}

// scribble edits the container an Execute call returned, the way a caller may
// who owns it: a map gets one more entry, a slice gets its first element zeroed
// and one appended. Nothing reachable through the elements is touched (elements
// may legitimately be shared with the datum), and a result that IS the datum
// (the nil filter hands its input back) is left alone.
func scribble(res, datum interface{}, seed uint64) {
	rv, dv := reflect.ValueOf(res), reflect.ValueOf(datum)
	switch rv.Kind() {
	case reflect.Map:
		if rv.IsNil() || (dv.Kind() == reflect.Map && dv.Pointer() == rv.Pointer()) {
			return
		}
		var key reflect.Value
		switch rv.Type().Key().Kind() {
		case reflect.String:
			key = reflect.ValueOf(fmt.Sprintf("verif-scribble-%d", seed%7)).Convert(rv.Type().Key())
		case reflect.Int, reflect.Int64, reflect.Int32:
			key = reflect.ValueOf(int64(900000 + seed%7)).Convert(rv.Type().Key())
		case reflect.Interface:
			key = reflect.ValueOf(fmt.Sprintf("verif-scribble-%d", seed%7))
		default:
			return
		}
		rv.SetMapIndex(key, reflect.Zero(rv.Type().Elem()))
	case reflect.Slice:
		if rv.IsNil() || rv.Cap() == 0 || (dv.Kind() == reflect.Slice && dv.Cap() > 0 && dv.Pointer() == rv.Pointer()) {
			return
		}
		if dv.Kind() == reflect.Ptr && !dv.IsNil() && dv.Elem().Kind() == reflect.Array && dv.Pointer() == rv.Pointer() {
			return
		}
		if rv.Len() > 0 && rv.Index(0).CanSet() {
			rv.Index(0).Set(reflect.Zero(rv.Type().Elem()))
		}
		if rv.Cap() > rv.Len() {
			// write into the spare capacity, as an append by the caller would
			ext := rv.Slice(0, rv.Len()+1)
			ext.Index(rv.Len()).Set(reflect.Zero(rv.Type().Elem()))
		}
	}
}

// freshOp executes one operation the way the stateless reference does: a
// freshly created object on a pristine rebuild of the datum as the caller last
// left it, with the same order tape and hook countdown.
func (e *runEnv) freshOp(task []plan.SOp, op plan.SOp) opRec {
	rec := opRec{Ran: true}
	ctx := &verifsim.OpCtx{Obj: -1, Tape: op.Tape, HookFailAt: op.FailAt, ClockJumps: op.Jumps}
	switch op.Kind {
	case "eval", "exec", "expr":
		spec, ok := specOf(e.p, task, op)
		if !ok {
			rec.Out = Outcome{Op: op.Kind, Skip: true}
			return rec
		}
		obj := NewObject(spec)
		var datum interface{}
		if op.Datum >= 0 && op.Datum < len(e.specs) {
			datum = Build(e.specs[op.Datum])
		}
		verifsim.BeginOp(ctx)
		switch op.Kind {
		case "eval":
			rec.Out = obj.Evaluate(datum)
		case "exec":
			rec.Out = obj.Execute(datum)
		default:
			rec.Out = obj.Expression()
		}
		verifsim.EndOp()
		if ctx.ChildPanic != "" && rec.Out.Panic == "" {
			rec.Out.Panic = normErr(ctx.ChildPanic)
		}
	case "create":
		verifsim.BeginOp(ctx)
		rec.Out = NewObject(*op.New).CreateOutcome()
		verifsim.EndOp()
	case "mutate":
		if op.Datum >= 0 && op.Datum < len(e.specs) {
			e.specs[op.Datum].Muts = append(e.specs[op.Datum].Muts, op.Mut)
		}
		rec.Out = Outcome{Op: "mutate"}
	case "gc":
		rec.Out = Outcome{Op: "gc"}
	default:
		rec.Out = Outcome{Op: op.Kind, Skip: true}
	}
	rec.Steps = ctx.Steps
	return rec
}

func resetSim() {
	verifsim.Reset()
	verifsim.SetOrderSeam(true)
}

// runFresh computes the reference outcome of every op.
func runFresh(p *plan.SchedPlan) *passResult {
	resetSim()
	verifsim.SetProcs(p.SimProcs)
	verifsim.BeginMain()
	e := newEnv(p)
	res := &passResult{Recs: make([][]opRec, len(p.Tasks))}
	for t, ops := range p.Tasks {
		for _, op := range ops {
			res.Recs[t] = append(res.Recs[t], e.freshOp(ops, op))
		}
	}
	verifsim.SetMode(verifsim.ModeOff)
	return res
}

type opRef struct{ T, J int }

// runHistory runs the ops one after another on long-lived objects and live
// data, in the given order (nil: task order).
func runHistory(p *plan.SchedPlan, order []opRef) *passResult {
	resetSim()
	verifsim.SetProcs(p.SimProcs)
	verifsim.BeginMain()
	e := newEnv(p)
	e.buildShared()
	res := &passResult{Recs: make([][]opRec, len(p.Tasks))}
	locals := make([][]*Object, len(p.Tasks))
	for t, ops := range p.Tasks {
		res.Recs[t] = make([]opRec, len(ops))
	}
	if order == nil {
		for t, ops := range p.Tasks {
			for j := range ops {
				order = append(order, opRef{t, j})
			}
		}
	}
	for _, r := range order {
		op := p.Tasks[r.T][r.J]
		if op.Kind == "mutate" {
			// results may legitimately share memory with the datum they were filtered
			// from: the caller's own mutation is allowed to show through them
			for t := range res.Recs {
				for j := range res.Recs[t] {
					if p.Tasks[t][j].Datum == op.Datum {
						res.Recs[t][j].res = nil
					}
				}
			}
		}
		res.Recs[r.T][r.J] = e.doOp(r.T, op, &locals[r.T], true)
	}
	res.TotalStep = verifsim.Steps()
	res.LibGo = verifsim.Spawned()
	verifsim.SetMode(verifsim.ModeOff)
	res.lookAgain()
	return res
}

// lookAgain fingerprints every retained Execute result a second time, after all
// calls of the run have returned.
func (res *passResult) lookAgain() {
	for t := range res.Recs {
		for j := range res.Recs[t] {
			r := &res.Recs[t][j]
			if r.res == nil {
				continue
			}
			if after := Canon(r.res, false); after != r.resCanon {
				r.ResDiff = firstDiff(r.resCanon, after)
			}
			r.res = nil
		}
	}
}

var abortIndex int
var abortPlan *plan.SchedPlan

// runConc runs the plan's callers as goroutines under the cooperative
// scheduler. refSteps (from a history pass) bound runaway operations.
func runConc(p *plan.SchedPlan, refSteps [][]int) *passResult {
	resetSim()
	abortPlan = p
	e := newEnv(p)
	e.buildShared()
	k := len(p.Tasks)
	res := &passResult{Recs: make([][]opRec, k), DataDiff: make([]string, len(e.data))}
	before := make([]string, len(e.data))
	for i, d := range e.data {
		before[i] = Canon(d, true)
	}
	var total uint64
	for _, t := range refSteps {
		for _, s := range t {
			total += uint64(s)
		}
	}
	for t, ops := range p.Tasks {
		res.Recs[t] = make([]opRec, len(ops))
	}
	verifsim.SetAbort(func(reason string) {
		b, _ := json.Marshal(map[string]interface{}{"type": "abort", "reason": reason, "index": abortIndex, "plan": abortPlan})
		fmt.Printf("%s\n", b)
		os.Exit(3)
	})
	if total > 0 {
		verifsim.SetHardCap(50*total + 2000000)
	} else {
		verifsim.SetHardCap(200000000)
	}
	verifsim.SetProcs(p.SimProcs)
	verifsim.StartRun(k, p.First, p.Quantum, p.Points)
	verifsim.SetPick(p.Pick)
	var wg sync.WaitGroup
	for t := 0; t < k; t++ {
		wg.Add(1)
		go func(t int) {
			defer wg.Done()
			verifsim.TaskEnter(t)
			var locals []*Object
			for j, op := range p.Tasks[t] {
				res.Recs[t][j] = e.doOp(t, op, &locals, false)
			}
			verifsim.TaskExit(t)
		}(t)
	}
	wg.Wait()
	verifsim.WaitChildren()
	verifsim.SetMode(verifsim.ModeOff)
	res.Stats = verifsim.RunStats()
	res.Log = verifsim.Log()
	res.TotalStep = verifsim.Steps()
	res.LibGo, res.LibChan = verifsim.Spawned(), verifsim.ChanOps()
	res.lookAgain()
	for i, d := range e.data {
		if after := Canon(d, true); after != before[i] {
			res.DataDiff[i] = firstDiff(before[i], after)
		}
	}
	return res
}

// Finding is one failed oracle of a simsched run.
type Finding struct {
	Property string `json:"property"`
	Kind     string `json:"kind"`
	Key      string `json:"key"`
	Detail   string `json:"detail"`
	Task     int    `json:"task"`
	Op       int    `json:"op"`
}

func describeOp(p *plan.SchedPlan, t, j int) string {
	op := p.Tasks[t][j]
	spec, _ := specOf(p, p.Tasks[t], op)
	if op.Kind == "create" && op.New != nil {
		spec = *op.New
	}
	d := "-"
	if op.Datum >= 0 && op.Datum < len(p.Data) {
		d = p.Data[op.Datum].String()
	}
	return fmt.Sprintf("task %d op %d: %s %q (opts %+v) on datum %s", t, j, op.Kind, spec.Expr, spec.Opts, d)
}

// textStable guards the text-only findings: an error text that differs from the
// reference is reported only if the reference text itself is stable, i.e. twenty
// fresh executions of the same op produce the same text. (The property family
// lets the choice of *which* error is reported depend on iteration order; an
// order source the seam does not control would otherwise look like state.)
func textStable(p *plan.SchedPlan, t, j int, want Outcome) bool {
	for i := 0; i < 20; i++ {
		resetSim()
		verifsim.BeginMain()
		e := newEnv(p)
		// replay the caller-side mutations that precede the op
		for jj := 0; jj < j; jj++ {
			if op := p.Tasks[t][jj]; op.Kind == "mutate" && op.Datum >= 0 && op.Datum < len(e.specs) {
				e.specs[op.Datum].Muts = append(e.specs[op.Datum].Muts, op.Mut)
			}
		}
		got := e.freshOp(p.Tasks[t], p.Tasks[t][j]).Out
		verifsim.SetMode(verifsim.ModeOff)
		if !got.Same(want, true) {
			return false
		}
	}
	return true
}

// stableSide re-executes one side of a comparison n times and reports whether it
// produced the given outcome every time.
func stableSide(run func() Outcome, want Outcome, n int) bool {
	for i := 0; i < n; i++ {
		if !run().Same(want, true) {
			return false
		}
	}
	return true
}

// diffClass compares two outcomes of the same op: 0 same, 1 both failed but in
// different ways (error text, or panic vs error), 2 a real difference (success
// vs failure, boolean, Execute result, Expression string).
func diffClass(a, b Outcome) int {
	if a.Same(b, true) {
		return 0
	}
	fa, fb := a.HasErr || a.Panic != "", b.HasErr || b.Panic != ""
	if a.Op == b.Op && a.Skip == b.Skip && fa && fb && a.Bool == b.Bool && a.Value == b.Value {
		return 1
	}
	return 2
}

// significant decides whether a difference between got and the reference want
// counts: real differences always do; failure-mode-only differences count only
// when the reference failure mode is stable (see textStable).
func significant(p *plan.SchedPlan, t, j int, got, want Outcome) (string, bool) {
	switch diffClass(got, want) {
	case 0:
		return "", false
	case 2:
		return "", true
	}
	if textStable(p, t, j, want) {
		return "-text", true
	}
	return "", false
}

// outClass is the part of an outcome that must agree across processes: success
// with its boolean / value, or failure (error and panic are one class).
func outClass(o Outcome) string {
	switch {
	case o.Skip:
		return "skip"
	case o.HasErr || o.Panic != "":
		return "fail"
	case o.Value != "":
		return fmt.Sprintf("val:%x", hashBytes([]byte(o.Value)))
	}
	return fmt.Sprintf("ok:%v", o.Bool)
}

// judgeRef compares the executing process with the generating one: the
// concurrent run and the sequential run that *follows* it must fall into the
// outcome classes the purely sequential generating process recorded. This is
// the only oracle that sees a concurrent run damaging state that outlives the
// objects (a package-level table), because every reference computed afterwards
// in the same process is damaged in the same way.
func judgeRef(p *plan.SchedPlan, conc, histAfter *passResult) []Finding {
	var out []Finding
	if len(p.RefOut) != len(p.Tasks) {
		return nil
	}
	for t := range p.Tasks {
		if len(p.RefOut[t]) != len(p.Tasks[t]) {
			return nil
		}
	}
	for t := range p.Tasks {
		for j, op := range p.Tasks[t] {
			want := p.RefOut[t][j]
			if got := outClass(conc.Recs[t][j].Out); got != want && want != "skip" && got != "skip" {
				out = append(out, Finding{Property: "C12", Kind: "differs-from-sequential-process", Key: "C12/differs-from-sequential-process/" + op.Kind, Task: t, Op: j,
					Detail: fmt.Sprintf("%s: under the concurrent schedule it returned %s; a process that made the same calls one after another got outcome class %s", describeOp(p, t, j), conc.Recs[t][j].Out, want)})
				continue
			}
			if got := outClass(histAfter.Recs[t][j].Out); got != want && want != "skip" && got != "skip" {
				out = append(out, Finding{Property: "C12", Kind: "damaged-by-concurrent-run", Key: "C12/damaged-by-concurrent-run/" + op.Kind, Task: t, Op: j,
					Detail: fmt.Sprintf("%s: made sequentially on fresh shared objects AFTER the concurrent run it returned %s; a process that never ran the calls concurrently got outcome class %s - the concurrent run left damage that outlives the objects", describeOp(p, t, j), histAfter.Recs[t][j].Out, want)})
			}
		}
	}
	return out
}

// judgeHistory applies the C13 oracles: history pass vs stateless reference.
func judgeHistory(p *plan.SchedPlan, fresh, hist *passResult) []Finding {
	var out []Finding
	for t := range p.Tasks {
		for j, op := range p.Tasks[t] {
			if len(out) >= 8 {
				return out // enough to report and to minimise; a long history may differ in thousands of ops
			}
			h, f := hist.Recs[t][j], fresh.Recs[t][j]
			if !h.Ran || h.Out.Skip && f.Out.Skip {
				continue
			}
			if suffix, sig := significant(p, t, j, h.Out, f.Out); sig {
				reruns := 6
				if p.NOps() > 400 {
					reruns = 2
				}
				if suffix != "" && !stableSide(func() Outcome { return runHistory(p, nil).Recs[t][j].Out }, h.Out, reruns) {
					continue // the failure mode of the history run is itself unstable: not state
				}
				kind := "history-dependent" + suffix
				out = append(out, Finding{Property: "C13", Kind: kind, Key: "C13/" + kind + "/" + op.Kind, Task: t, Op: j,
					Detail: fmt.Sprintf("%s: after the preceding calls it returned %s, a freshly created object returns %s", describeOp(p, t, j), h.Out, f.Out)})
			}
			if h.DatumDiff != "" {
				out = append(out, Finding{Property: "C13", Kind: "datum-modified", Key: "C13/datum-modified/" + op.Kind, Task: t, Op: j,
					Detail: fmt.Sprintf("%s modified the caller's datum (deep fingerprint incl. spare capacity): %s", describeOp(p, t, j), h.DatumDiff)})
			}
			if h.ExprDiff != "" {
				out = append(out, Finding{Property: "C13", Kind: "expression-not-source", Key: "C13/expression-not-source", Task: t, Op: j,
					Detail: describeOp(p, t, j) + ": " + h.ExprDiff})
			}
			if h.ResDiff != "" {
				out = append(out, Finding{Property: "C13", Kind: "result-changed-after-return", Key: "C13/result-changed-after-return/" + op.Kind, Task: t, Op: j,
					Detail: fmt.Sprintf("%s: the value it returned was different when looked at again after the later calls of the history (state carried between calls is observable through it): %s", describeOp(p, t, j), h.ResDiff)})
			}
		}
	}
	return out
}

// judgeConc applies the C12 logic oracles: concurrent run vs sequential.
func judgeConc(p *plan.SchedPlan, fresh, hist, conc *passResult) []Finding {
	var out []Finding
	histDependent := false
	for t := range p.Tasks {
		for j := range p.Tasks[t] {
			if _, sig := significant(p, t, j, hist.Recs[t][j].Out, fresh.Recs[t][j].Out); sig {
				histDependent = true
			}
		}
	}
	ref := fresh
	refName := "one after another (fresh reference)"
	if histDependent {
		// results depend on call order even sequentially (C13's subject): the
		// reference is the sequential run in the concurrent run's completion order
		var order []opRef
		for t := range p.Tasks {
			for j := range p.Tasks[t] {
				order = append(order, opRef{t, j})
			}
		}
		sort.SliceStable(order, func(a, b int) bool {
			return conc.Recs[order[a].T][order[a].J].Return < conc.Recs[order[b].T][order[b].J].Return
		})
		ref = runHistory(p, order)
		refName = "one after another in the concurrent run's completion order"
	}
	for t := range p.Tasks {
		for j, op := range p.Tasks[t] {
			if len(out) >= 8 {
				return out
			}
			c, f := conc.Recs[t][j], ref.Recs[t][j]
			if c.Out.Skip && f.Out.Skip {
				continue
			}
			if !c.Out.Same(f.Out, true) {
				if histDependent {
					// also accept the task-order sequential run
					if c.Out.Same(hist.Recs[t][j].Out, true) {
						continue
					}
				}
				// a failure-mode-only difference counts only if the failure modes of both sides are stable
				if diffClass(c.Out, f.Out) == 1 && (!textStable(p, t, j, fresh.Recs[t][j].Out) ||
					!stableSide(func() Outcome { return runConc(p, nil).Recs[t][j].Out }, c.Out, 4)) {
					continue
				}
				out = append(out, Finding{Property: "C12", Kind: "outcome-differs", Key: "C12/outcome-differs/" + op.Kind, Task: t, Op: j,
					Detail: fmt.Sprintf("%s: under the concurrent schedule it returned %s, made %s it returns %s", describeOp(p, t, j), c.Out, refName, f.Out)})
			}
			if c.ExprDiff != "" {
				out = append(out, Finding{Property: "C12", Kind: "outcome-differs", Key: "C12/outcome-differs/expr", Task: t, Op: j, Detail: describeOp(p, t, j) + ": " + c.ExprDiff})
			}
			if c.ResDiff != "" {
				out = append(out, Finding{Property: "C12", Kind: "result-changed-after-return", Key: "C12/result-changed-after-return/" + op.Kind, Task: t, Op: j,
					Detail: fmt.Sprintf("%s: the value it returned under the concurrent schedule was different when looked at again after all callers had finished (another call wrote into it): %s", describeOp(p, t, j), c.ResDiff)})
			}
		}
	}
	for i, d := range conc.DataDiff {
		if d != "" {
			out = append(out, Finding{Property: "C12", Kind: "shared-datum-modified", Key: "C12/shared-datum-modified", Task: -1, Op: i,
				Detail: fmt.Sprintf("shared datum %d (%s) was modified during the concurrent run: %s", i, p.Data[i].String(), d)})
		}
	}
	return out
}

// ---- plan generation ---------------------------------------------------------

var policies = []string{"back-to-back", "uniform", "uniform", "window", "dense", "rr", "lockstep", "syncgap"}

// panicky: whether generated evaluators may get a hook that panics on some
// values (C12 plans only: C13 makes no claim about state after a panic in
// user code).
var panicky bool

func genObj(r *plan.Rand, uniq string, data []DatumSpec, allowFilter bool) (ObjSpec, int) {
	di := r.Intn(len(data))
	for try := 0; try < 4 && (data[di].Gen == "nil" || data[di].Gen == "scalar"); try++ {
		di = r.Intn(len(data))
	}
	d := data[di]
	opts := OptSpec{}
	if r.Chance(0.15) {
		opts.Tag = "json"
	}
	if r.Chance(0.2) {
		opts.Unknown = []string{"str:", "int:0", "nil", "str:abc"}[r.Intn(4)]
	}
	if r.Chance(0.3) {
		opts.Hook = []string{"identity", "unwrap", "poison"}[r.Intn(3)]
		if panicky && r.Chance(0.3) {
			opts.Hook = "panicky"
		}
	}
	if opts.Tag == "" && r.Chance(0.06) {
		opts.Tag = EmptyTag
	}
	if opts.Hook == "" && r.Chance(0.05) {
		opts.Hook = NilHook
	}
	if r.Chance(0.12) {
		// a parse budget: mostly generous, sometimes too small (creation then
		// fails with the max-expressions error, an outcome like any other)
		opts.Max = []uint64{200, 2000, 20000, 1 << 20, 1 << 40}[r.Intn(5)]
	}
	g := &ExprGen{R: r.Fork(), Tag: opts.Tag, Uniq: uniq}
	root := Build(d)
	if strings.HasPrefix(d.Gen, "coll:") {
		if allowFilter {
			// an empty or non-container collection: aim the expression at the usual element type
			var elem interface{} = genInner(plan.New(7), 1)
			rv := reflect.ValueOf(root)
			switch rv.Kind() {
			case reflect.Map:
				if rv.Len() > 0 {
					ks := rv.MapKeys()
					sort.Slice(ks, func(i, j int) bool { return fmt.Sprint(ks[i]) < fmt.Sprint(ks[j]) })
					elem = rv.MapIndex(ks[r.Intn(len(ks))]).Interface()
				}
			case reflect.Slice, reflect.Array:
				if rv.Len() > 0 {
					elem = rv.Index(r.Intn(rv.Len())).Interface()
				}
			}
			e := ""
			if !r.Chance(0.05) { // empty expression: the nil filter
				e = g.Gen(elem, r.Intn(2), r.Intn(3))
			}
			return ObjSpec{Kind: "filter", Expr: e}, di
		}
	}
	var e string
	if r.Chance(0.3) {
		e = g.GenQuantified(root, 1+r.Intn(2))
	} else {
		e = g.Gen(root, r.Intn(3), r.Intn(4))
	}
	return ObjSpec{Kind: "evaluator", Expr: e, Opts: opts}, di
}

// GenSchedPlan derives the idx-th plan (without schedule) of a seed. prop is
// "C12" (k in 2..4 callers) or "C13" (one caller, long history).
func GenSchedPlan(seed uint64, idx int, prop string) *plan.SchedPlan {
	salt := uint64(0x5c12)
	if prop == "C13" {
		salt = 0x5c13
	}
	if prop == "C11" {
		salt = 0x5c11
	}
	r := plan.New(plan.Mix(seed, uint64(idx)+salt<<20))
	p := &plan.SchedPlan{Engine: "simsched", Property: prop, Build: "plain", Seed: seed, Index: idx, Policy: "sequential"}
	// what the library is told about the number of processors, and how goroutines
	// it starts itself are picked (both only matter to a library that asks / starts some)
	h := plan.Mix(plan.Mix(seed, uint64(idx)), 0x9c0c5)
	p.SimProcs = []int{0, 0, 2, 4, 8, 3}[h%6]
	if (h>>8)%2 == 0 {
		p.Pick = 1 + (h>>16)%1000000
	}
	panicky = prop == "C12"
	uniq := fmt.Sprintf("-u%x", plan.Mix(seed, uint64(idx))&0xffffff)
	k := 1
	if prop == "C12" {
		k = r.Range(2, 4)
		if r.Chance(0.05) {
			k = r.Range(5, 8)
		}
	}
	if prop == "C11" {
		return genBudgetPlan(p, r, uniq)
	}
	if prop == "C13" && idx%29 == 11 {
		return genBigDistinct(p, r, uniq)
	}
	if prop == "C13" && idx%61 == 17 {
		return genGrowing(p, r)
	}
	if prop == "C13" && idx%67 == 23 {
		return genRepresentations(p, r)
	}
	if prop == "C12" {
		// (plans from FirstUseBase on are all hammer-shaped: the first-use phase of
		// the check gives each of them a process of its own)
		if hammer := r.Chance(0.3); hammer || idx >= FirstUseBase {
			return genHammer(p, r, uniq, k)
		}
	}
	nData := r.Range(1, 3)
	// one history in twenty is long and touches many different data: caches with
	// a capacity, counters with a threshold, pools that fill up
	longHistory := prop == "C13" && r.Chance(0.05)
	// one history in a hundred is a marathon: thousands of calls on a single
	// object - counters that wrap or cross a threshold, tables rebuilt once they
	// have grown, clean-up that runs every k-th call
	marathon := prop == "C13" && idx%97 == 5
	if longHistory {
		nData = r.Range(6, 16)
	}
	if marathon {
		nData = r.Range(3, 8)
	}
	for i := 0; i < nData; i++ {
		gens := DatumGens
		if r.Chance(0.25) {
			gens = CollGens
		}
		g := gens[r.Intn(len(gens))]
		if marathon && (g == "coll:huge" || g == "bytesdoc" || g == "coll:names" || g == "names") {
			g = "coll:slice" // thousands of deep fingerprints of a huge datum buy nothing
		}
		p.Data = append(p.Data, DatumSpec{Gen: g, Seed: r.Uint64() % 1000000})
	}
	if r.Chance(0.1) {
		// a datum no expression was written for: nil or a bare scalar
		p.Data = append(p.Data, DatumSpec{Gen: []string{"nil", "scalar"}[r.Intn(2)], Seed: r.Uint64() % 1000000})
	}
	nObj := r.Range(1, 3)
	if marathon {
		nObj = 1
	}
	if prop == "C12" && r.Chance(0.12) {
		// no shared object at all: the callers only create (and then use) their
		// own evaluators - concurrent first use of whatever the parser shares
		nObj = 0
	}
	base := make([]int, nObj)
	for i := 0; i < nObj; i++ {
		o, di := genObj(r, uniq, p.Data, true)
		p.Objects = append(p.Objects, o)
		p.Primed = append(p.Primed, r.Chance(0.4))
		base[i] = di
	}
	if prop == "C12" && nObj > 0 && (h>>32)%8 == 0 {
		// one shared object also exists as a by-value copy made before first use
		src := int((h >> 40) % uint64(nObj))
		c := p.Objects[src]
		c.CopyOf = src + 1
		p.Objects = append(p.Objects, c)
		p.Primed[src] = false
		p.Primed = append(p.Primed, false)
		base = append(base, base[src])
		nObj++
	}
	// a filter is meant for a container type "or its element type": give it a
	// sibling container of the same kind (array, slice, map) but another
	// element type to be executed on as well
	siblings := map[string][]string{
		"coll:array": {"coll:arrayptr", "coll:arrayany", "coll:arraymap"}, "coll:arrayptr": {"coll:array", "coll:arrayany"}, "coll:arrayany": {"coll:array", "coll:arraymap"}, "coll:arraymap": {"coll:array", "coll:arrayany"},
		"coll:slice": {"coll:ptrslice", "coll:jsonlist", "coll:anys", "coll:named"}, "coll:ptrslice": {"coll:slice", "coll:anys"}, "coll:named": {"coll:slice"}, "coll:jsonlist": {"coll:slice", "coll:anys"}, "coll:anys": {"coll:slice", "coll:jsonlist"},
		"coll:map": {"coll:ptrmap", "coll:anymap", "coll:intmap", "coll:namedmap"}, "coll:ptrmap": {"coll:map", "coll:anymap"}, "coll:anymap": {"coll:map", "coll:ptrmap"}, "coll:namedmap": {"coll:map"}, "coll:intmap": {"coll:map"},
	}
	sibOf := map[int]int{}
	for i, o := range p.Objects {
		if p.Data[base[i]].Gen == "floats" && o.CopyOf == 0 {
			// the same numbers at the other float width (seed parity decides the width)
			d := p.Data[base[i]]
			p.Data = append(p.Data, DatumSpec{Gen: "floats", Seed: d.Seed ^ 1})
			sibOf[i] = len(p.Data) - 1
			continue
		}
		if o.Kind == "filter" && r.Chance(0.6) {
			if sibs := siblings[p.Data[base[i]].Gen]; len(sibs) > 0 {
				p.Data = append(p.Data, DatumSpec{Gen: sibs[r.Intn(len(sibs))], Seed: r.Uint64() % 1000000})
				sibOf[i] = len(p.Data) - 1
			}
		}
	}
	for t := 0; t < k; t++ {
		var ops []plan.SOp
		n := r.Range(1, 6)
		if prop == "C13" {
			n = r.Range(5, 40)
			if longHistory {
				n = r.Range(100, 400)
			}
			if marathon {
				n = r.Range(1500, 4000)
			}
		}
		nLocal := 0
		for len(ops) < n {
			x := r.Float()
			nData := len(p.Data)
			oi, di := -1, r.Intn(nData)
			if nObj > 0 {
				oi = r.Intn(nObj)
				di = base[oi]
				if r.Chance(0.15) {
					di = r.Intn(nData)
				}
				if sd, ok := sibOf[oi]; ok && r.Chance(0.4) {
					di = sd
				}
			} else if nLocal == 0 {
				x = 0.75 // nothing to call yet: create first
			}
			if marathon && nObj > 0 && x >= 0.62 && r.Chance(0.9) {
				x = 0.3 // keep calling the long-lived objects
			}
			op := plan.SOp{Obj: oi, Datum: di}
			if nLocal > 0 && (nObj == 0 || r.Chance(0.3)) {
				op.Local = true
				op.Obj = r.Intn(nLocal)
				op.Datum = r.Intn(nData)
			}
			spec, _ := specOf(p, ops, op)
			switch {
			case x < 0.62:
				op.Kind = "eval"
				if spec.Kind == "filter" {
					op.Kind = "exec"
				}
			case x < 0.70:
				op.Kind = "expr"
				if spec.Kind == "filter" {
					op.Kind = "exec"
				}
			case x < 0.80:
				o, _ := genObj(r, uniq, p.Data, r.Chance(0.3))
				op = plan.SOp{Kind: "create", Obj: -1, Datum: -1, New: &o}
				nLocal++
			case x < 0.93 && prop == "C13":
				op = plan.SOp{Kind: "mutate", Obj: -1, Datum: r.Intn(nData), Mut: r.Uint64() % 1000000}
			case x < 0.96 && prop == "C13":
				op = plan.SOp{Kind: "gc", Obj: -1, Datum: -1}
			default:
				op.Kind = "eval"
				if spec.Kind == "filter" {
					op.Kind = "exec"
				}
			}
			if op.Kind == "eval" || op.Kind == "exec" {
				if r.Chance(0.35) {
					op.Tape = make([]uint64, r.Range(1, 3))
					for i := range op.Tape {
						op.Tape[i] = r.Uint64() % (verifsim.SpecialBase - 1)
					}
				}
				if spec.Opts.Hook != "" && r.Chance(0.35) {
					op.FailAt = r.Range(1, 8)
				}
				if op.Kind == "exec" && (h>>24)%3 == 0 && r.Chance(0.5) {
					op.Scribble = 1 + r.Uint64()%1000
				}
				if r.Chance(0.04) {
					// the clock jumps while the call is running
					op.Jumps = []verifsim.ClockJump{{At: r.Range(1, 120), Delta: []time.Duration{30 * time.Millisecond, 2 * time.Second, time.Hour, -time.Second}[r.Intn(4)]}}
				}
			}
			ops = append(ops, op)
		}
		p.Tasks = append(p.Tasks, ops)
	}
	return p
}

// namesObject writes a filter (or evaluator) for the big collections of records
// with distinct names: a text operator on the name, so that one node of the
// syntax tree sees thousands of different strings.
func namesObject(r *plan.Rand, gen string) ObjSpec {
	pre := []string{"web", "db", "cache", "api", "job"}[r.Intn(5)]
	body := []string{
		fmt.Sprintf(`y matches "^%s-"`, pre),
		fmt.Sprintf(`y not matches "^%s-.*[05]$"`, pre),
		fmt.Sprintf(`y matches "-%d"`, r.Range(0, 9)),
		fmt.Sprintf(`"%s" in y`, pre),
		fmt.Sprintf(`y contains "%d"`, r.Range(0, 99)),
		fmt.Sprintf(`y == "%s-%04d" or y matches "7$"`, pre, r.Range(0, 1500)),
	}[r.Intn(6)]
	if gen == "names" {
		body = strings.ReplaceAll(body, "y ", "x ")
		body = strings.ReplaceAll(body, " y", " x")
		return ObjSpec{Kind: "evaluator", Expr: fmt.Sprintf("%s items as x { %s }", []string{"any", "all"}[r.Intn(2)], body)}
	}
	return ObjSpec{Kind: "filter", Expr: body}
}

// genBigDistinct (C13): the same call repeated on data with more distinct
// values than any bounded memo or table holds.
func genBigDistinct(p *plan.SchedPlan, r *plan.Rand, uniq string) *plan.SchedPlan {
	gen := []string{"coll:names", "coll:names", "names"}[r.Intn(3)]
	p.Data = []DatumSpec{{Gen: gen, Seed: r.Uint64() % 1000000}, {Gen: gen, Seed: r.Uint64() % 1000000}}
	obj := namesObject(r, gen)
	p.Objects = []ObjSpec{obj}
	p.Primed = []bool{false}
	kind := "eval"
	if obj.Kind == "filter" {
		kind = "exec"
	}
	var ops []plan.SOp
	for i, n := 0, r.Range(3, 6); i < n; i++ {
		ops = append(ops, plan.SOp{Kind: kind, Obj: 0, Datum: []int{0, 0, 1}[r.Intn(3)]})
	}
	p.Tasks = [][]plan.SOp{ops}
	return p
}

// genGrowing (C13): one object sees lists of 9..40 elements in seeded order,
// mostly shorter ones first, and the element that decides sits near the end of
// the longest: whatever the object sizes by the longest list it has seen so
// far (index tables, scratch buffers, per-element caches) has to grow between
// calls and is used beyond its old size at once.
func genGrowing(p *plan.SchedPlan, r *plan.Rand) *plan.SchedPlan {
	nData := r.Range(3, 6)
	type dl struct{ idx, n int }
	var lens []dl
	maxN := 0
	for i := 0; i < nData; i++ {
		d := DatumSpec{Gen: "longlist", Seed: r.Uint64() % 1000000}
		p.Data = append(p.Data, d)
		n := 0
		if m, ok := Build(d).(map[string]interface{}); ok {
			n, _ = m["n"].(int)
		}
		lens = append(lens, dl{i, n})
		if n > maxN {
			maxN = n
		}
	}
	j := maxN - 1 - r.Intn(3)
	if j < 0 {
		j = 0
	}
	op := []string{"any", "all"}[r.Intn(2)]
	cmp := map[string]string{"any": "==", "all": "!="}[op]
	body := []string{
		fmt.Sprintf("%s xs as x { x %s %d }", op, cmp, 100+j),
		fmt.Sprintf("%s ss as x { x %s \"s%d\" }", op, cmp, j),
		fmt.Sprintf("%s items as i, it { it.X %s %d }", op, cmp, 300+j),
		fmt.Sprintf("%s \"/m/list\" as x { x %s %d }", op, cmp, 200+j-j%2),
	}[r.Intn(4)]
	p.Objects = []ObjSpec{{Kind: "evaluator", Expr: body}}
	p.Primed = []bool{false}
	sort.Slice(lens, func(a, b int) bool { return lens[a].n < lens[b].n })
	var ops []plan.SOp
	for _, l := range lens {
		ops = append(ops, plan.SOp{Kind: "eval", Obj: 0, Datum: l.idx})
		if r.Chance(0.3) {
			ops = append(ops, plan.SOp{Kind: "eval", Obj: 0, Datum: lens[r.Intn(len(lens))].idx})
		}
	}
	p.Tasks = [][]plan.SOp{ops}
	return p
}

// genRepresentations (C13): one object is called on the same kind of record in
// several representations in turn - json-tagged struct, its pointer,
// bexpr-tagged struct, plain map; or []interface{} lists whose hit and whose
// incomparable element sit at different positions. Whatever an object derives
// from the first datum it sees (a tag name, a field table, a position) and then
// keeps is wrong for the next representation.
func genRepresentations(p *plan.SchedPlan, r *plan.Rand) *plan.SchedPlan {
	if r.Chance(0.5) {
		base := r.Uint64() % 100000 * 4
		for k := 0; k < 4; k++ {
			p.Data = append(p.Data, DatumSpec{Gen: "tagged", Seed: base + uint64(k)})
		}
		exprs := []string{`name == "web"`, `Name == "web"`, `port != 80 or name == "db"`, `Port == 443`, `meta.env == "prod"`, `Meta.env == "prod" and "a" in Tags`, `"web" in tags`}
		p.Objects = []ObjSpec{{Kind: "evaluator", Expr: exprs[r.Intn(len(exprs))]}, {Kind: "evaluator", Expr: exprs[r.Intn(len(exprs))]}}
		if r.Chance(0.3) {
			p.Objects[1].Opts.Tag = "json"
		}
	} else {
		for k := 0; k < 5; k++ {
			p.Data = append(p.Data, DatumSpec{Gen: "inlist", Seed: r.Uint64() % 100000})
		}
		p.Objects = []ObjSpec{{Kind: "evaluator", Expr: `"hit" in xs`}, {Kind: "evaluator", Expr: `"hit" not in xs or n == 3`}}
	}
	p.Primed = []bool{false, false}
	var ops []plan.SOp
	for i, n := 0, r.Range(6, 12); i < n; i++ {
		ops = append(ops, plan.SOp{Kind: "eval", Obj: r.Intn(2), Datum: r.Intn(len(p.Data))})
	}
	p.Tasks = [][]plan.SOp{ops}
	return p
}

// FirstUseBase: plan indexes from here on are reserved for the first-use phase.
const FirstUseBase = 1 << 24

// genHammer is the classic shape of a concurrency test: every caller makes the
// same few calls on one shared object (same or sibling data), so that whatever
// a call does on first use - grow a table, fill a cache, publish a value - all
// callers reach at the same program point; lockstep and sync-gap schedules then
// interleave them inside it. Half of these plans quantify over long lists.
func genHammer(p *plan.SchedPlan, r *plan.Rand, uniq string, k int) *plan.SchedPlan {
	gens := append(append([]string{}, DatumGens...), "longlist", "longlist", "longlist", "longlist", "coll:long", "coll:long", "coll:slice", "coll:map", "coll:array", "coll:huge", "coll:names", "coll:names", "names")
	gen := gens[r.Intn(len(gens))]
	nData := r.Range(1, 2)
	for i := 0; i < nData; i++ {
		p.Data = append(p.Data, DatumSpec{Gen: gen, Seed: r.Uint64() % 1000000})
	}
	var obj ObjSpec
	for try := 0; try < 4; try++ {
		obj, _ = genObj(r, uniq, p.Data[:1], true)
		if strings.Contains(obj.Expr, "any ") || strings.Contains(obj.Expr, "all ") || r.Chance(0.4) {
			break
		}
	}
	if obj.Kind == "evaluator" && r.Chance(0.2) {
		// a long chain whose every term has to be evaluated: `and` over true
		// terms or `or` over false ones - deep recursion in every caller at the
		// same time, and an expression text of a kilobyte or more
		if e := deepChain(r, obj, p.Data[0]); e != "" {
			obj.Expr = e
		}
	}
	if (gen == "coll:names" || gen == "names") && r.Chance(0.6) {
		obj = namesObject(r, gen)
	}
	p.Objects = []ObjSpec{obj}
	p.Primed = []bool{r.Chance(0.2)}
	nShared := 1
	if obj.Kind == "evaluator" && r.Chance(0.12) {
		// the callers use by-value copies of one evaluator, made before first use
		c := obj
		c.CopyOf = 1
		p.Objects = append(p.Objects, c)
		p.Primed = []bool{false, false}
		nShared = 2
	}
	kind := "eval"
	if obj.Kind == "filter" {
		kind = "exec"
	}
	nOps := r.Range(1, 3)
	withCreate := r.Chance(0.25)
	for t := 0; t < k; t++ {
		var ops []plan.SOp
		if withCreate {
			o := obj
			ops = append(ops, plan.SOp{Kind: "create", Obj: -1, Datum: -1, New: &o})
		}
		for j := 0; j < nOps; j++ {
			op := plan.SOp{Kind: kind, Obj: t % nShared, Datum: (t + j) % nData}
			if withCreate && r.Chance(0.5) {
				op.Local = true
			}
			if obj.Opts.Hook != "" && r.Chance(0.2) {
				op.FailAt = r.Range(1, 8)
			}
			if r.Chance(0.06) {
				op.Jumps = []verifsim.ClockJump{{At: r.Range(1, 200), Delta: []time.Duration{2 * time.Second, time.Hour}[r.Intn(2)]}}
			}
			ops = append(ops, op)
		}
		p.Tasks = append(p.Tasks, ops)
	}
	return p
}

// genBudgetPlan (C11 under concurrency): 2-4 callers that only create
// evaluators with parse budgets placed around the measured step count of each
// expression. A budget is a property of one parse: what other callers parse at
// the same time, and with which budgets, must not matter.
func genBudgetPlan(p *plan.SchedPlan, r *plan.Rand, uniq string) *plan.SchedPlan {
	env := budgetEnv()
	p.Data = []DatumSpec{{Gen: []string{"doc", "json", "tmap:any"}[r.Intn(3)], Seed: r.Uint64() % 1000000}}
	root := Build(p.Data[0])
	k := r.Range(2, 4)
	nExpr := r.Range(1, 3)
	type ex struct {
		text string
		s    uint64
	}
	var exprs []ex
	for i := 0; i < nExpr; i++ {
		g := &ExprGen{R: r.Fork(), Uniq: uniq}
		e := g.Gen(root, r.Intn(2), r.Intn(3))
		if r.Chance(0.2) {
			e = strings.Repeat("(", 4) + "a == 1" + strings.Repeat(")", 4) // a few ten thousand steps
		}
		verifsim.Reset()
		verifsim.BeginMain()
		_, entries, _ := limitedParse(apiEval, []byte(e), 0, false, 0, env.EntrySites)
		verifsim.SetMode(verifsim.ModeOff)
		exprs = append(exprs, ex{e, entries})
	}
	for t := 0; t < k; t++ {
		var ops []plan.SOp
		for j, n := 0, r.Range(1, 4); j < n; j++ {
			x := exprs[r.Intn(len(exprs))]
			s := x.s
			if s == 0 {
				s = 500
			}
			budgets := []uint64{s, s + 1, s - 1, s / 2, 2 * s, 1, 50, 1 << 40, 0}
			o := ObjSpec{Kind: "evaluator", Expr: x.text, Opts: OptSpec{Max: budgets[r.Intn(len(budgets))]}}
			ops = append(ops, plan.SOp{Kind: "create", Obj: -1, Datum: -1, New: &o})
			if r.Chance(0.4) {
				ops = append(ops, plan.SOp{Kind: "eval", Local: true, Obj: len(opsCreates(ops)) - 1, Datum: 0})
			}
		}
		p.Tasks = append(p.Tasks, ops)
	}
	return p
}

func opsCreates(ops []plan.SOp) []int {
	var out []int
	for i, o := range ops {
		if o.Kind == "create" {
			out = append(out, i)
		}
	}
	return out
}

var budgetEnvCache *C11Env

func budgetEnv() *C11Env {
	if budgetEnvCache == nil {
		budgetEnvCache = NewC11Env()
	}
	return budgetEnvCache
}

// deepChain builds `t1 and t2 and ... and tn` from terms that are true on the
// datum (or `or` over false terms), measured with the library itself, so that
// evaluation walks the whole right-recursive chain.
func deepChain(r *plan.Rand, obj ObjSpec, d DatumSpec) string {
	root := Build(d)
	g := &ExprGen{R: r.Fork(), Tag: obj.Opts.Tag}
	var scope []scopePath
	for _, pi := range EnumPaths(reflect.ValueOf(root), g.Tag, 3) {
		scope = append(scope, scopePath{PathInfo: pi})
	}
	if len(scope) == 0 {
		return ""
	}
	want := r.Chance(0.5)
	n := r.Range(24, 70)
	var terms []string
	for try := 0; try < 40*n && len(terms) < n; try++ {
		t := g.tree(scope, 0, 0)
		if strings.Contains(t, "any ") || strings.Contains(t, "all ") {
			continue
		}
		spec := obj
		spec.Expr = t
		out := NewObject(spec).Evaluate(root)
		if out.Skip || out.HasErr || out.Panic != "" || out.Bool != want {
			continue
		}
		terms = append(terms, t)
	}
	if len(terms) < 8 {
		return ""
	}
	if want {
		return strings.Join(terms, " and ")
	}
	return strings.Join(terms, " or ")
}

// AddSchedule draws a schedule for p from the per-op step counts and store
// offsets measured by a history pass.
func AddSchedule(p *plan.SchedPlan, hist *passResult, r *plan.Rand) {
	k := len(p.Tasks)
	p.Policy = policies[r.Intn(len(policies))]
	hasSync := false
	for t := range p.Tasks {
		for j := range p.Tasks[t] {
			if len(hist.Recs[t][j].SyncOffs) > 0 && (p.Tasks[t][j].Kind == "eval" || p.Tasks[t][j].Kind == "exec") {
				hasSync = true
			}
		}
	}
	fineRR := false
	if hasSync && r.Chance(0.7) {
		// the calls take locks or do atomic operations: favour the schedules that
		// put several callers inside the same critical-section gap
		p.Policy = []string{"rr", "rr", "syncgap", "lockstep"}[r.Intn(4)]
		fineRR = true
	}
	p.First = r.Intn(k)
	p.Points = nil
	p.Quantum = 0
	type ref struct{ t, j int }
	var ops []ref
	for t := range p.Tasks {
		for j := range p.Tasks[t] {
			if hist.Recs[t][j].Steps > 0 {
				ops = append(ops, ref{t, j})
			}
		}
	}
	if len(ops) == 0 {
		p.Policy = "back-to-back"
		return
	}
	other := func(t int) int {
		if k < 2 {
			return 0
		}
		o := r.Intn(k - 1)
		if o >= t {
			o++
		}
		return o
	}
	point := func(t, j, off int) {
		p.Points = append(p.Points, verifsim.Point{Task: t, Op: j, Off: off, To: other(t)})
	}
	switch p.Policy {
	case "back-to-back":
	case "uniform":
		// PCT-style: c change points; pick an op first, then a step inside it, so
		// that short evaluations are preempted as often as long parses
		for c := r.Range(1, 8); c > 0; c-- {
			o := ops[r.Intn(len(ops))]
			point(o.t, o.j, 1+r.Intn(hist.Recs[o.t][o.j].Steps))
		}
	case "window":
		// right after a statement that stores through shared-looking state:
		// between a check and its act, or between a write and the later read
		for c := r.Range(1, 6); c > 0; c-- {
			o := ops[r.Intn(len(ops))]
			so := hist.Recs[o.t][o.j].StoreOffs
			if len(so) == 0 {
				point(o.t, o.j, 1+r.Intn(hist.Recs[o.t][o.j].Steps))
				continue
			}
			point(o.t, o.j, so[r.Intn(len(so))]+r.Intn(3))
		}
	case "syncgap":
		// right after a statement that locks, unlocks or does an atomic
		// operation: the gap between a check under one critical section and the
		// act under the next, or between a publication and its completion
		var with []ref
		for _, o := range ops {
			if len(hist.Recs[o.t][o.j].SyncOffs) > 0 {
				with = append(with, o)
			}
		}
		if len(with) == 0 {
			p.Policy = "uniform"
			for c := r.Range(1, 8); c > 0; c-- {
				o := ops[r.Intn(len(ops))]
				point(o.t, o.j, 1+r.Intn(hist.Recs[o.t][o.j].Steps))
			}
			break
		}
		for c := r.Range(2, 10); c > 0; c-- {
			o := with[r.Intn(len(with))]
			so := hist.Recs[o.t][o.j].SyncOffs
			point(o.t, o.j, so[r.Intn(len(so))]+1+r.Intn(3))
		}
	case "dense":
		// first-use initialisation: switch with probability 1/2 at each of the
		// first 64 yields of every op
		for _, o := range ops {
			lim := hist.Recs[o.t][o.j].Steps
			if lim > 64 {
				lim = 64
			}
			for s := 1; s <= lim; s++ {
				if r.Chance(0.5) {
					point(o.t, o.j, s)
				}
			}
		}
	case "rr":
		p.Quantum = []int{1, 2, 3, 5, 8, 13, 21, 50, 200}[r.Intn(9)]
		if fineRR {
			p.Quantum = 1 + r.Intn(4)
		}
	case "lockstep":
		// every caller is advanced to the same offset of its first op before
		// any of them proceeds
		lim := 48
		if r.Chance(0.5) {
			// anywhere inside the first op, not only at its very beginning
			for t := 0; t < k; t++ {
				if len(p.Tasks[t]) > 0 && hist.Recs[t][0].Steps > lim {
					lim = hist.Recs[t][0].Steps
				}
			}
			if lim > 4000 {
				lim = 4000
			}
		}
		off := 1 + r.Intn(lim)
		for t := 0; t < k; t++ {
			if len(p.Tasks[t]) > 0 && hist.Recs[t][0].Steps > 0 {
				o := off
				if o > hist.Recs[t][0].Steps {
					o = hist.Recs[t][0].Steps
				}
				p.Points = append(p.Points, verifsim.Point{Task: t, Op: 0, Off: o, To: (t + 1) % k})
			}
		}
		p.First = 0
	}
}

// ---- worker commands -----------------------------------------------------------

type schedResult struct {
	Type       string    `json:"type"`
	Index      int       `json:"index"`
	Property   string    `json:"property"`
	K          int       `json:"k"`
	Ops        int       `json:"ops"`
	Policy     string    `json:"policy"`
	Steps      uint64    `json:"steps"`
	Switches   int       `json:"switches"`
	ByKind     [5]int    `json:"switches_by_kind"`
	SameObj    int       `json:"same_object_switches"`
	MidOp      int       `json:"mid_op_switches"`
	Blocked    int       `json:"blocked_spins"`
	Hash       uint64    `json:"interleaving_hash"`
	OutDigest  uint64    `json:"outcome_digest"`
	HookFired  int       `json:"hook_failures_fired"`
	Mutates    int       `json:"mutations"`
	GCs        int       `json:"gcs"`
	Jumps      int       `json:"clock_jumps"`
	LibGo      int       `json:"library_goroutines"`
	LibChan    int       `json:"library_channel_ops"`
	Scribbles  int       `json:"results_edited_by_caller"`
	Errored    int       `json:"ops_errored"`
	True       int       `json:"ops_true"`
	False      int       `json:"ops_false"`
	Panicked   int       `json:"ops_panicked"`
	OrderDec   int       `json:"order_decisions"`
	Nontrivial bool      `json:"nontrivial"`
	PlanHash   uint64    `json:"plan_hash"`
	Findings   []Finding `json:"findings,omitempty"`
	SitePairs  []uint64  `json:"site_pairs,omitempty"`
}

func planHash(p *plan.SchedPlan) uint64 {
	q := *p
	q.Build, q.Expect, q.RefOut, q.Procs = "", "", nil, 0
	q.SliceFrom, q.SliceStride, q.SliceK = 0, 0, 0
	b, _ := json.Marshal(&q)
	return hashBytes(b)
}

func outcomeDigest(res *passResult) uint64 {
	var b strings.Builder
	for _, t := range res.Recs {
		for _, r := range t {
			b.WriteString(r.Out.String())
			b.WriteByte('\n')
		}
	}
	return hashBytes([]byte(b.String()))
}

func summarise(p *plan.SchedPlan, run *passResult, conc bool, findings []Finding) schedResult {
	sr := schedResult{Type: "result", Index: p.Index, Property: p.Property, K: len(p.Tasks), Ops: p.NOps(), Policy: p.Policy,
		Steps: run.TotalStep, Findings: findings, PlanHash: planHash(p), OutDigest: outcomeDigest(run)}
	sr.LibGo, sr.LibChan = run.LibGo, run.LibChan
	type objState struct {
		calls int
		data  map[int]bool
		fault bool
	}
	states := map[int]*objState{}
	histNontrivial := false
	for t, ops := range p.Tasks {
		for j, op := range ops {
			rec := run.Recs[t][j]
			if rec.HookFired {
				sr.HookFired++
			}
			if rec.Out.HasErr {
				sr.Errored++
			} else if rec.Out.Op == "eval" && rec.Out.Panic == "" && !rec.Out.Skip {
				if rec.Out.Bool {
					sr.True++
				} else {
					sr.False++
				}
			}
			if rec.Out.Panic != "" {
				sr.Panicked++
			}
			sr.OrderDec += rec.NDec
			sr.Jumps += len(op.Jumps)
			if op.Scribble != 0 && op.Kind == "exec" {
				sr.Scribbles++
			}
			switch op.Kind {
			case "mutate":
				sr.Mutates++
				for _, s := range states {
					s.fault = true
				}
			case "gc":
				sr.GCs++
			case "eval", "exec":
				if op.Local {
					continue
				}
				s := states[op.Obj]
				if s == nil {
					s = &objState{data: map[int]bool{}}
					states[op.Obj] = s
				}
				// a later call on an object that has already seen a fault, a
				// caller-side mutation or a different datum
				if s.calls >= 1 && (s.fault || !s.data[op.Datum]) {
					histNontrivial = true
				}
				s.calls++
				s.data[op.Datum] = true
				if rec.Out.HasErr || rec.Out.Panic != "" || rec.HookFired {
					s.fault = true
				}
			}
		}
	}
	if conc {
		sr.Switches = run.Stats.Switches
		sr.ByKind = run.Stats.ByKind
		sr.SameObj = run.Stats.SameObjSwitches
		sr.MidOp = run.Stats.MidOpSwitches
		sr.Blocked = run.Stats.BlockedSpins
		sr.Hash = run.Stats.Hash
		sr.Nontrivial = sr.SameObj > 0
		seen := map[uint64]bool{}
		for _, ev := range run.Log {
			if ev.FromSite >= 0 && ev.ToSite >= 0 {
				key := uint64(ev.FromSite)<<20 | uint64(ev.ToSite)
				if !seen[key] {
					seen[key] = true
					sr.SitePairs = append(sr.SitePairs, key)
				}
			}
		}
	} else {
		sr.Nontrivial = histNontrivial
	}
	return sr
}

// relabel: a budget plan's findings belong to C11 (a parse budget that depends
// on what other callers are doing is not a budget on that parse's work).
func relabel(p *plan.SchedPlan, fs []Finding) []Finding {
	if p.Property != "C11" {
		return fs
	}
	for i := range fs {
		fs[i].Property = "C11"
		fs[i].Key = "C11/concurrent-" + strings.TrimPrefix(fs[i].Key, "C12/")
		fs[i].Detail = "parse budgets under concurrent creation: " + fs[i].Detail
	}
	return fs
}

func toViolation(p *plan.SchedPlan, f Finding, seed uint64) Violation {
	q := p.Clone()
	q.Expect = f.Key
	return Violation{Type: "violation", Property: f.Property, Engine: "simsched", Kind: f.Kind, Key: f.Key, Detail: f.Detail, Seed: seed, Index: p.Index, Replay: mustJSON(q)}
}

// execSched runs one plan the way a replay does: the concurrent run first (so
// that first-use initialisation happens under the schedule), then the
// references, then the oracles.
func execSched(p *plan.SchedPlan) (schedResult, []Finding) {
	abortIndex = p.Index
	if len(p.Tasks) <= 1 || p.Property == "C13" {
		hist := runHistory(p, nil)
		fresh := runFresh(p)
		f := judgeHistory(p, fresh, hist)
		return summarise(p, hist, false, f), f
	}
	var ref [][]int
	conc := runConc(p, ref)
	hist := runHistory(p, nil)
	fresh := runFresh(p)
	f := judgeConc(p, fresh, hist, conc)
	if len(f) == 0 {
		// no object-level disagreement inside this process: compare with the
		// purely sequential process that generated the plan
		f = judgeRef(p, conc, hist)
	}
	f = relabel(p, f)
	return summarise(p, conc, true, f), f
}

// workerSchedGen emits plans with schedules (type "plan"), one per line.
func workerSchedGen(cfg WorkerCfg) int {
	prop := "C12"
	if cfg.K == 13 {
		prop = "C13"
	}
	if cfg.K == 11 {
		prop = "C11"
	}
	for idx := cfg.From; idx < cfg.To; idx += cfg.Stride {
		if cfg.expired() {
			break
		}
		p := GenSchedPlan(cfg.Seed, idx, prop)
		if prop != "C13" {
			hist := runHistory(p, nil)
			AddSchedule(p, hist, plan.New(plan.Mix(cfg.Seed, uint64(idx)+0x5ced<<20)))
			p.RefOut = make([][]string, len(p.Tasks))
			for t := range p.Tasks {
				for j := range p.Tasks[t] {
					p.RefOut[t] = append(p.RefOut[t], outClass(hist.Recs[t][j].Out))
				}
			}
		}
		cfg.Emit(map[string]interface{}{"type": "plan", "plan": p})
	}
	return 0
}

func readPlans(file string) ([]*plan.SchedPlan, error) {
	b, err := os.ReadFile(file)
	if err != nil {
		return nil, err
	}
	var out []*plan.SchedPlan
	for _, line := range strings.Split(strings.TrimSpace(string(b)), "\n") {
		if strings.TrimSpace(line) == "" {
			continue
		}
		var d struct {
			Plan *plan.SchedPlan `json:"plan"`
		}
		if err := json.Unmarshal([]byte(line), &d); err != nil {
			return nil, err
		}
		if d.Plan == nil {
			var p plan.SchedPlan
			if err := json.Unmarshal([]byte(line), &p); err != nil {
				return nil, err
			}
			d.Plan = &p
		}
		out = append(out, d.Plan)
	}
	return out, nil
}

// workerSchedExec executes the plans of a file (every Stride-th from From).
func workerSchedExec(cfg WorkerCfg) int {
	plans, err := readPlans(cfg.File)
	if err != nil {
		fmt.Fprintln(os.Stderr, err)
		return 2
	}
	for i := cfg.From; i < len(plans); i += cfg.Stride {
		if cfg.expired() {
			break
		}
		p := plans[i]
		cfg.Emit(map[string]interface{}{"type": "begin", "index": p.Index, "pos": i})
		sr, findings := execSched(p)
		cfg.Emit(sr)
		for _, f := range findings {
			cfg.Emit(toViolation(p, f, p.Seed))
		}
	}
	cfg.Emit(map[string]interface{}{"type": "done"})
	return 0
}

// workerSchedGenExec generates and executes in one process (plain build).
func workerSchedGenExec(cfg WorkerCfg) int {
	prop := "C12"
	if cfg.K == 13 {
		prop = "C13"
	}
	if cfg.K == 11 {
		prop = "C11"
	}
	aged := 0
	if cfg.From%2 == 1 && prop != "C11" {
		// every second in-process worker is an old process (see AgeProcess)
		aged = 1600
		ageOnce(cfg.Seed, aged)
		cfg.Emit(map[string]interface{}{"type": "aged", "calls": aged})
	}
	for idx := cfg.From; idx < cfg.To; idx += cfg.Stride {
		if cfg.expired() {
			break
		}
		p := GenSchedPlan(cfg.Seed, idx, prop)
		p.Aged = aged // a replay ages its process the same way first
		p.SliceFrom, p.SliceStride, p.SliceK = cfg.From, cfg.Stride, cfg.K
		abortIndex = idx
		var sr schedResult
		var findings []Finding
		if prop == "C13" {
			sr, findings = execSched(p)
		} else {
			hist := runHistory(p, nil)
			AddSchedule(p, hist, plan.New(plan.Mix(cfg.Seed, uint64(idx)+0x5ced<<20)))
			ref := make([][]int, len(p.Tasks))
			for t := range p.Tasks {
				for j := range p.Tasks[t] {
					ref[t] = append(ref[t], hist.Recs[t][j].Steps)
				}
			}
			conc := runConc(p, ref)
			fresh := runFresh(p)
			findings = relabel(p, judgeConc(p, fresh, hist, conc))
			sr = summarise(p, conc, true, findings)
		}
		if len(findings) > 0 || idx < cfg.From+2*cfg.Stride {
			cfg.Emit(map[string]interface{}{"type": "sample-plan", "plan": p})
		}
		cfg.Emit(sr)
		for _, f := range findings {
			cfg.Emit(toViolation(p, f, cfg.Seed))
		}
	}
	cfg.Emit(map[string]interface{}{"type": "done"})
	return 0
}

var agedAlready bool

func ageOnce(seed uint64, n int) {
	if !agedAlready {
		agedAlready = true
		AgeProcess(seed, n)
	}
}

// replaySched re-executes one plan document; reproduced = the expected key is
// among the findings (or, without expectation, there is any finding).
func replaySched(cfg WorkerCfg) int {
	if handled, code := replayC13Stream(cfg); handled {
		return code
	}
	plans, err := readPlans(cfg.File)
	if err != nil || len(plans) != 1 {
		fmt.Fprintln(os.Stderr, "bad replay file:", err)
		return 2
	}
	p := plans[0]
	if p.Aged > 0 {
		ageOnce(p.Seed, p.Aged)
	}
	sr, findings := execSched(p)
	rep := false
	var keys []string
	for _, f := range findings {
		keys = append(keys, f.Key)
		if p.Expect == "" || f.Key == p.Expect {
			rep = true
		}
	}
	cfg.Emit(map[string]interface{}{"type": "replay", "reproduced": rep, "keys": keys, "findings": findings, "result": sr})
	return 0
}

func init() {
	extraCommands["sched-gen"] = workerSchedGen
	extraCommands["sched-exec"] = workerSchedExec
	extraCommands["sched-genexec"] = workerSchedGenExec
	extraCommands["sched-replay"] = replaySched
}
