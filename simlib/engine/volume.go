package engine

import (
	"encoding/json"
	"fmt"
	"os"
	"strings"

	bexpr "github.com/hashicorp/go-bexpr"
)

// ---- C11 volume phase ---------------------------------------------------------
//
// A budget is a property of one parse. A process that has refused a great many
// hostile inputs under budget B must still accept, under the same B, every
// harmless input whose own step count is far below B. The phase runs on the
// untouched build (no step counting is needed, and it is several times faster):
// nRej distinct inputs that B refuses, then nOK distinct harmless inputs of one
// template, each of which must parse. Inputs are a function of (seed, worker),
// so a finding replays by running the same volume again.

type volumeDoc struct {
	Engine   string `json:"engine"`
	Property string `json:"property"`
	Build    string `json:"build"`
	Seed     uint64 `json:"seed"`
	Volume   *struct {
		Worker int    `json:"worker"`
		NRej   int    `json:"hostile_inputs"`
		NOK    int    `json:"harmless_inputs"`
		Budget uint64 `json:"budget"`
		Index  int    `json:"failing_index"`
	} `json:"volume"`
}

func volHostile(seed uint64, w, i int) string {
	return strings.Repeat("(", 10) + fmt.Sprintf("h%d_%d_%d == %d", seed%1000, w, i, i)
}

func volHarmless(seed uint64, w, j int) string {
	return fmt.Sprintf(`x == "c%d-%d-%d"`, seed%1000, w, j)
}

func createWith(expr string, n uint64) (err error) {
	defer func() {
		if r := recover(); r != nil {
			err = fmt.Errorf("panic: %v", r)
		}
	}()
	_, err = bexpr.CreateEvaluator(expr, bexpr.WithMaxExpressions(n))
	return err
}

// thresholdOf finds the smallest budget that parses expr, through the public option only.
func thresholdOf(expr string) uint64 {
	hi := uint64(64)
	for createWith(expr, hi) != nil {
		hi *= 2
		if hi > 1<<24 {
			return 0
		}
	}
	lo := hi / 2
	for lo+1 < hi {
		mid := lo + (hi-lo)/2
		if createWith(expr, mid) == nil {
			hi = mid
		} else {
			lo = mid
		}
	}
	return hi
}

// runVolume returns the index of the first harmless input that was refused (-1: none).
func runVolume(seed uint64, w, nRej, nOK int, budget uint64) (first int, firstErr string, rejected int, b uint64) {
	if budget == 0 {
		n := thresholdOf(volHarmless(seed, w, 123456789))
		if n == 0 {
			return -1, "", 0, 0
		}
		budget = 3*n + uint64(w)
	}
	for i := 0; i < nRej; i++ {
		if createWith(volHostile(seed, w, i), budget) != nil {
			rejected++
		}
	}
	for j := 0; j < nOK; j++ {
		if err := createWith(volHarmless(seed, w, j), budget); err != nil {
			return j, err.Error(), rejected, budget
		}
	}
	return -1, "", rejected, budget
}

func workerC11Volume(cfg WorkerCfg) int {
	w, nRej, nOK := cfg.From, cfg.K, cfg.To
	first, msg, rejected, budget := runVolume(cfg.Seed, w, nRej, nOK, 0)
	if first >= 0 {
		in := volHarmless(cfg.Seed, w, first)
		cfg.Emit(Violation{Type: "violation", Property: "C11", Engine: "abortsim", Kind: "refused-in-an-old-process",
			Key: "C11/refused-in-an-old-process/bexpr.CreateEvaluator+WithMaxExpressions",
			Detail: fmt.Sprintf("after %d hostile inputs had been refused under budget %d in this process (and %d harmless ones accepted), the harmless input %q, whose own threshold is about a third of that budget, was refused under the same budget: %s",
				rejected, budget, first, in, clip(msg, 200)),
			Seed: cfg.Seed, Index: first,
			Replay: mustJSON(map[string]interface{}{"engine": "abortsim", "property": "C11", "build": "pure", "seed": cfg.Seed,
				"volume": map[string]interface{}{"worker": w, "hostile_inputs": nRej, "harmless_inputs": first + 1, "budget": budget, "failing_index": first}})})
	}
	cfg.Emit(map[string]interface{}{"type": "volume-summary", "worker": w, "hostile_inputs": nRej, "hostile_refused": rejected, "harmless_inputs": nOK, "budget": budget, "first_refused": first})
	return 0
}

// replayVolume re-runs the volume of a finding in this (fresh) process.
func replayVolume(cfg WorkerCfg) (handled bool, code int) {
	b, err := os.ReadFile(cfg.File)
	if err != nil {
		return false, 0
	}
	var doc volumeDoc
	if json.Unmarshal(b, &doc) != nil || doc.Volume == nil {
		return false, 0
	}
	v := doc.Volume
	first, msg, rejected, _ := runVolume(doc.Seed, v.Worker, v.NRej, v.NOK, v.Budget)
	cfg.Emit(map[string]interface{}{"type": "replay", "reproduced": first == v.Index, "first_refused": first, "error": msg, "hostile_refused": rejected})
	return true, 0
}

func init() {
	extraCommands["c11-volume"] = workerC11Volume
}

// ---- C13 volume phase ---------------------------------------------------------
//
// An evaluator carries no observable state between calls - also not after
// millions of them. A long-lived object and a young one (recreated every 257
// calls) are driven through the same stream of distinct data on the untouched
// build; their answers must agree on every datum. Tables that collide, rotate,
// evict or overflow only after a great many distinct inputs show up here. The
// stream is a function of (seed, worker, template), so a finding replays by
// running the same stream again.

type c13Stream struct {
	name string
	spec ObjSpec
	gen  func(seed uint64, w, i int) interface{}
}

var c13Streams = []c13Stream{
	{"log-lines", ObjSpec{Kind: "evaluator", Expr: `line matches "status (ERROR|timeout)$" or line matches "^2026-1[12]"`},
		func(seed uint64, w, i int) interface{} {
			st := []string{"ok", "ERROR", "timeout", "retry"}[(i*7+i/5)%4]
			return map[string]interface{}{"line": fmt.Sprintf("2026-%02d-%02dT%02d:%02d host-%03d-%02d request %08d finished with status %s", 1+i%12, 1+i%28, i%24, i%60, seed%1000, w, i, st)}
		}},
	{"names", ObjSpec{Kind: "evaluator", Expr: `name == "node-0000042" or name matches "7$" or "x9" in name`},
		func(seed uint64, w, i int) interface{} {
			return map[string]interface{}{"name": fmt.Sprintf("node-%07d", i), "n": i}
		}},
	{"tags", ObjSpec{Kind: "evaluator", Expr: `"tag-7" in tags and not ( any tags as t { t matches "^zz" } )`},
		func(seed uint64, w, i int) interface{} {
			return map[string]interface{}{"tags": []string{fmt.Sprintf("tag-%d", i%13), fmt.Sprintf("u%d-%d", w, i), "tag-7"}[:2+i%2]}
		}},
	{"records", ObjSpec{Kind: "filter", Expr: `y matches "-(1|3|5)" and X != 3`},
		func(seed uint64, w, i int) interface{} {
			return []Inner{{X: i % 7, Y: fmt.Sprintf("rec-%d-%d", w, i)}, {X: 3, Y: fmt.Sprintf("rec-%d", i%11)}, {X: i, Y: fmt.Sprintf("long-record-name-%d-%09d-padding-padding", w, i)}}
		}},
}

func runC13Stream(seed uint64, w, tmpl, n int) (first int, detail string, calls int) {
	st := c13Streams[tmpl%len(c13Streams)]
	old := NewObject(st.spec)
	young := NewObject(st.spec)
	call := func(o *Object, d interface{}) Outcome {
		if st.spec.Kind == "filter" {
			return o.Execute(d)
		}
		return o.Evaluate(d)
	}
	for i := 0; i < n; i++ {
		if i%257 == 0 {
			young = NewObject(st.spec)
		}
		d := st.gen(seed, w, i)
		a, b := call(old, d), call(young, d)
		calls += 2
		if !a.Same(b, true) {
			return i, fmt.Sprintf("%s %q, datum %d of the stream (%v): the object that has answered %d calls returns %s, an object created %d calls ago returns %s",
				st.spec.Kind, st.spec.Expr, i, clip(fmt.Sprint(d), 160), i, a, i%257, b), calls
		}
	}
	return -1, "", calls
}

func workerC13Volume(cfg WorkerCfg) int {
	total := 0
	for tmpl := range c13Streams {
		n := cfg.To
		if tmpl > 0 {
			n = cfg.To / 16
		}
		first, detail, calls := runC13Stream(cfg.Seed, cfg.From, tmpl, n)
		total += calls
		if first >= 0 {
			cfg.Emit(Violation{Type: "violation", Property: "C13", Engine: "simsched", Kind: "differs-from-young-object",
				Key: "C13/differs-from-young-object/" + c13Streams[tmpl].name, Detail: detail, Seed: cfg.Seed, Index: first,
				Replay: mustJSON(map[string]interface{}{"engine": "simsched", "property": "C13", "build": "pure", "seed": cfg.Seed,
					"stream": map[string]interface{}{"worker": cfg.From, "template": tmpl, "calls": first + 1, "failing_index": first}})})
		}
	}
	cfg.Emit(map[string]interface{}{"type": "volume-summary", "worker": cfg.From, "calls": total})
	return 0
}

func replayC13Stream(cfg WorkerCfg) (handled bool, code int) {
	b, err := os.ReadFile(cfg.File)
	if err != nil {
		return false, 0
	}
	var doc struct {
		Seed   uint64 `json:"seed"`
		Stream *struct {
			Worker   int `json:"worker"`
			Template int `json:"template"`
			Calls    int `json:"calls"`
			Index    int `json:"failing_index"`
		} `json:"stream"`
	}
	if json.Unmarshal(b, &doc) != nil || doc.Stream == nil {
		return false, 0
	}
	first, detail, _ := runC13Stream(doc.Seed, doc.Stream.Worker, doc.Stream.Template, doc.Stream.Calls)
	cfg.Emit(map[string]interface{}{"type": "replay", "reproduced": first == doc.Stream.Index, "first_difference": first, "detail": detail})
	return true, 0
}

func init() {
	extraCommands["c13-volume"] = workerC13Volume
}
