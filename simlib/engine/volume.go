package engine

import (
	"encoding/json"
	"fmt"
	"os"
	"strings"

	bexpr "github.com/hashicorp/go-bexpr"
)

// ---- C11 volume phase ---------------------------------------------------------
//
// A budget is a property of one parse. A process that has refused a great many
// hostile inputs under budget B must still accept, under the same B, every
// harmless input whose own step count is far below B. The phase runs on the
// untouched build (no step counting is needed, and it is several times faster):
// nRej distinct inputs that B refuses, then nOK distinct harmless inputs of one
// template, each of which must parse. Inputs are a function of (seed, worker),
// so a finding replays by running the same volume again.

type volumeDoc struct {
	Engine   string `json:"engine"`
	Property string `json:"property"`
	Build    string `json:"build"`
	Seed     uint64 `json:"seed"`
	Volume   *struct {
		Worker int    `json:"worker"`
		NRej   int    `json:"hostile_inputs"`
		NOK    int    `json:"harmless_inputs"`
		Budget uint64 `json:"budget"`
		Index  int    `json:"failing_index"`
	} `json:"volume"`
}

func volHostile(seed uint64, w, i int) string {
	return strings.Repeat("(", 10) + fmt.Sprintf("h%d_%d_%d == %d", seed%1000, w, i, i)
}

func volHarmless(seed uint64, w, j int) string {
	return fmt.Sprintf(`x == "c%d-%d-%d"`, seed%1000, w, j)
}

func createWith(expr string, n uint64) (err error) {
	defer func() {
		if r := recover(); r != nil {
			err = fmt.Errorf("panic: %v", r)
		}
	}()
	_, err = bexpr.CreateEvaluator(expr, bexpr.WithMaxExpressions(n))
	return err
}

// thresholdOf finds the smallest budget that parses expr, through the public option only.
func thresholdOf(expr string) uint64 {
	hi := uint64(64)
	for createWith(expr, hi) != nil {
		hi *= 2
		if hi > 1<<24 {
			return 0
		}
	}
	lo := hi / 2
	for lo+1 < hi {
		mid := lo + (hi-lo)/2
		if createWith(expr, mid) == nil {
			hi = mid
		} else {
			lo = mid
		}
	}
	return hi
}

// runVolume returns the index of the first harmless input that was refused (-1: none).
func runVolume(seed uint64, w, nRej, nOK int, budget uint64) (first int, firstErr string, rejected int, b uint64) {
	if budget == 0 {
		n := thresholdOf(volHarmless(seed, w, 123456789))
		if n == 0 {
			return -1, "", 0, 0
		}
		budget = 3*n + uint64(w)
	}
	for i := 0; i < nRej; i++ {
		if createWith(volHostile(seed, w, i), budget) != nil {
			rejected++
		}
	}
	for j := 0; j < nOK; j++ {
		if err := createWith(volHarmless(seed, w, j), budget); err != nil {
			return j, err.Error(), rejected, budget
		}
	}
	return -1, "", rejected, budget
}

func workerC11Volume(cfg WorkerCfg) int {
	w, nRej, nOK := cfg.From, cfg.K, cfg.To
	first, msg, rejected, budget := runVolume(cfg.Seed, w, nRej, nOK, 0)
	if first >= 0 {
		in := volHarmless(cfg.Seed, w, first)
		cfg.Emit(Violation{Type: "violation", Property: "C11", Engine: "abortsim", Kind: "refused-in-an-old-process",
			Key: "C11/refused-in-an-old-process/bexpr.CreateEvaluator+WithMaxExpressions",
			Detail: fmt.Sprintf("after %d hostile inputs had been refused under budget %d in this process (and %d harmless ones accepted), the harmless input %q, whose own threshold is about a third of that budget, was refused under the same budget: %s",
				rejected, budget, first, in, clip(msg, 200)),
			Seed: cfg.Seed, Index: first,
			Replay: mustJSON(map[string]interface{}{"engine": "abortsim", "property": "C11", "build": "pure", "seed": cfg.Seed,
				"volume": map[string]interface{}{"worker": w, "hostile_inputs": nRej, "harmless_inputs": first + 1, "budget": budget, "failing_index": first}})})
	}
	cfg.Emit(map[string]interface{}{"type": "volume-summary", "worker": w, "hostile_inputs": nRej, "hostile_refused": rejected, "harmless_inputs": nOK, "budget": budget, "first_refused": first})
	return 0
}

// replayVolume re-runs the volume of a finding in this (fresh) process.
func replayVolume(cfg WorkerCfg) (handled bool, code int) {
	b, err := os.ReadFile(cfg.File)
	if err != nil {
		return false, 0
	}
	var doc volumeDoc
	if json.Unmarshal(b, &doc) != nil || doc.Volume == nil {
		return false, 0
	}
	v := doc.Volume
	first, msg, rejected, _ := runVolume(doc.Seed, v.Worker, v.NRej, v.NOK, v.Budget)
	cfg.Emit(map[string]interface{}{"type": "replay", "reproduced": first == v.Index, "first_refused": first, "error": msg, "hostile_refused": rejected})
	return true, 0
}

func init() {
	extraCommands["c11-volume"] = workerC11Volume
}
