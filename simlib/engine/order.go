package engine

import (
	"encoding/json"
	"fmt"
	"os"
	"reflect"
	"sort"
	"strings"
	"time"

	"verif.local/verif/simlib/plan"
	"verif.local/verifsim"
)

// ---- ordersim: C14 -----------------------------------------------------------
//
// The order in which a map's entries are visited is chosen by the runtime. In
// the instrumented copy every such choice goes through verifsim, which sorts
// the keys canonically and applies the permutation the op's order tape says.

// C14Case is one (object, datum, operation); with the two tapes it is also the
// replay document of a C14 violation.
type C14Case struct {
	Obj     ObjSpec    `json:"obj"`
	Datum   DatumSpec  `json:"datum"`
	Prelude *DatumSpec `json:"prelude,omitempty"` // evaluated once on the fresh object before every explored order
	Op      string     `json:"op"`                // eval | exec
	Family  string     `json:"family"`
}

func (c C14Case) hash() uint64 {
	pre := ""
	if c.Prelude != nil {
		pre = c.Prelude.String()
	}
	return hashBytes([]byte(c.Obj.Kind + "\x00" + c.Obj.Expr + "\x00" + c.Obj.Opts.Hook + c.Obj.Opts.Unknown + c.Obj.Opts.Tag + fmt.Sprint(c.Obj.Opts.Max) + "\x00" + c.Datum.String() + c.Op + pre))
}

var mixedFamilyNames = []string{"eq", "path", "in", "re", "poison", "nested", "tslice", "tptr", "filter", "tfilter", "eq", "path", "ieq", "neq", "fold", "qfilter", "deep", "dfilter", "ikin", "keyre", "eqchain", "numin"}

func genClasses(r *plan.Rand) string {
	n := r.Range(2, 8)
	b := make([]byte, n)
	for i := range b {
		b[i] = "TFE"[r.Intn(3)]
	}
	if r.Chance(0.8) {
		b[r.Intn(n)] = 'E'
		j := r.Intn(n)
		if b[j] == 'E' {
			j = (j + 1) % n
		}
		b[j] = "TF"[r.Intn(2)]
	}
	return string(b)
}

// GenC14Case derives the idx-th case of a seed.
func GenC14Case(seed uint64, idx int) C14Case {
	r := plan.New(plan.Mix(seed, uint64(idx)+0xc14))
	if r.Chance(0.6) {
		fam := mixedFamilyNames[r.Intn(len(mixedFamilyNames))]
		classes := genClasses(r)
		c := C14Case{Family: "mixed:" + fam, Datum: DatumSpec{Gen: "mixed:" + fam + ":" + classes, Seed: 1}}
		if r.Chance(0.4) {
			c.Datum.Gen += []string{":num", ":num", ":pre", ":pre", ":case", ":big", ":empty"}[r.Intn(7)]
		}
		if r.Chance(0.35) {
			// a used object: it has already seen a map of the same size whose key set differs in one name
			b := []byte(classes)
			for i := range b {
				b[i] = "TFE"[r.Intn(3)]
			}
			c.Prelude = &DatumSpec{Gen: "mixed:" + fam + ":" + string(b) + ":alt", Seed: 1}
		}
		body := MixedFamilies[fam]
		if fam == "keyre" {
			// the body looks at the key only: one key is decisive, every other key runs
			// into a pattern the parser accepts and regexp rejects (reported at
			// evaluation time); the element values play no part
			c.Op = "eval"
			kb := []string{"k", "k, _", "k, v"}[r.Intn(3)]
			sel := []string{"m", `"/m"`}[r.Intn(2)]
			bad := []string{`^(?!internal-).*`, `(`, `a{2,1}`, `[z-a]`}[r.Intn(4)]
			key := []string{"k1", "k0", "instance-07", "k2"}[r.Intn(4)]
			if r.Chance(0.5) {
				c.Obj = ObjSpec{Kind: "evaluator", Expr: fmt.Sprintf("any %s as %s { k == %q or k matches %q }", sel, kb, key, bad)}
			} else {
				c.Obj = ObjSpec{Kind: "evaluator", Expr: fmt.Sprintf("all %s as %s { k != %q and k not matches %q }", sel, kb, key, bad)}
			}
			return c
		}
		if fam == "filter" || fam == "tfilter" || fam == "qfilter" || fam == "dfilter" || fam == "numin" {
			c.Op = "exec"
			c.Obj = ObjSpec{Kind: "filter", Expr: body}
			if r.Chance(0.3) {
				c.Obj.Expr = "not " + body
			}
			return c
		}
		c.Op = "eval"
		op := []string{"any", "all"}[r.Intn(2)]
		if op == "all" && r.Chance(0.5) {
			body = "not " + body
		}
		binding := []string{"_, v", "k, v", "kk, v"}[r.Intn(3)]
		sel := []string{"m", `"/m"`}[r.Intn(2)]
		e := fmt.Sprintf("%s %s as %s { %s }", op, sel, binding, body)
		if r.Chance(0.15) {
			// two quantifiers joined by and/or: the second one never errors and is
			// decisive on its own, so the outcome hangs on the first one being
			// evaluated first and completely
			if r.Chance(0.5) {
				e = fmt.Sprintf(`( %s ) or ( any %s as kx, _ { kx != "" } )`, e, sel)
			} else {
				e = fmt.Sprintf(`( %s ) and ( all %s as kx, _ { kx == "" } )`, e, sel)
			}
			if r.Chance(0.3) {
				e = "not ( " + e + " )"
			}
			c.Obj = ObjSpec{Kind: "evaluator", Expr: e}
			if fam == "poison" {
				c.Obj.Opts.Hook = "poison"
			}
			return c
		}
		switch r.Intn(7) {
		case 0:
			e = "not ( " + e + " )"
		case 1:
			e = "top == 1 and ( " + e + " )"
		case 2:
			e = "top != 1 or " + e
		case 3:
			e = "( " + e + " ) and top == 1"
		}
		c.Obj = ObjSpec{Kind: "evaluator", Expr: e}
		if fam == "poison" {
			c.Obj.Opts.Hook = "poison"
		} else if r.Chance(0.15) {
			c.Obj.Opts.Hook = "identity"
		}
		if r.Chance(0.1) {
			c.Obj.Opts.Unknown = "int:1"
		}
		return c
	}
	// generic: generated data with maps, generated quantifier / filter
	g := &ExprGen{R: r.Fork()}
	if r.Chance(0.3) {
		kind := []string{"coll:map", "coll:anymap", "coll:ptrmap", "coll:namedmap", "coll:intmap"}[r.Intn(5)]
		d := DatumSpec{Gen: kind, Seed: r.Uint64() % 100000}
		root := Build(d)
		var elem interface{} = map[string]interface{}{}
		rv := reflect.ValueOf(root)
		if rv.Kind() == reflect.Map && rv.Len() > 0 {
			ks := rv.MapKeys()
			sort.Slice(ks, func(i, j int) bool { return fmt.Sprint(ks[i]) < fmt.Sprint(ks[j]) })
			elem = rv.MapIndex(ks[r.Intn(len(ks))]).Interface()
		}
		return C14Case{Family: "generic-filter", Op: "exec", Datum: d, Obj: ObjSpec{Kind: "filter", Expr: g.Gen(elem, 1, 2)}}
	}
	kind := []string{"json", "tmap:any", "tmap:ptr", "tmap:slice", "tmap:map", "tmap:int", "tmap:inner", "doc", "jsonnum", "tmap:ikey", "tmap:nkey", "odd"}[r.Intn(12)]
	d := DatumSpec{Gen: kind, Seed: r.Uint64() % 100000}
	root := Build(d)
	c := C14Case{Family: "generic-quantifier", Op: "eval", Datum: d, Obj: ObjSpec{Kind: "evaluator", Expr: g.GenQuantified(root, 2)}}
	if r.Chance(0.25) {
		c.Prelude = &DatumSpec{Gen: kind, Seed: r.Uint64() % 100000}
	}
	if r.Chance(0.2) {
		c.Obj.Opts.Unknown = []string{"str:", "int:0", "nil"}[r.Intn(3)]
	}
	if r.Chance(0.2) {
		c.Obj.Opts.Hook = []string{"identity", "unwrap", "poison"}[r.Intn(3)]
	}
	return c
}

type orderRun struct {
	Out        Outcome
	Decisions  []verifsim.Decision
	N          int
	Steps      int
	ClockReads int
	RandDraws  int
	ProcReads  int // how often the library asked for the number of processors
	Spawned    int // goroutines the library started during the call
	Deadlock   string
	Second     *Outcome // duo runs: the second caller's outcome
}

// envFault is what the environment of one call does besides map order: the
// seed of the pseudo-random stream, jumps of the simulated clock, the number of
// processors the library is told about, and - when the library starts
// goroutines of its own - the schedule of those goroutines.
type envFault struct {
	RandSeed   uint64               `json:"rand_seed,omitempty"`
	ClockJumps []verifsim.ClockJump `json:"clock_jumps,omitempty"`
	Procs      int                  `json:"procs,omitempty"`
	Sched      *schedFault          `json:"schedule,omitempty"`
	// Tape: the map-order tape of the call (the call is always a fresh object's first)
	Tape []uint64 `json:"tape,omitempty"`
	// Duo: a second caller makes the same call on the same object at the same
	// time, with order tape Duo.Tape, under the given time slice and pick stream;
	// the outcome reported is the worse of the two (the one that differs)
	Duo *duoFault `json:"second_caller,omitempty"`
}

type duoFault struct {
	Quantum int      `json:"quantum"`
	Pick    uint64   `json:"pick"`
	Tape    []uint64 `json:"tape,omitempty"`
}

func (e envFault) orderOnly() bool {
	return len(e.Tape) > 0 && e.RandSeed == 0 && len(e.ClockJumps) == 0 && e.Procs == 0 && e.Sched == nil
}

// schedFault: the call runs as the only caller under the cooperative scheduler;
// the goroutines the library starts are scheduled with this time slice and the
// next one to run is drawn from this stream.
type schedFault struct {
	Quantum int    `json:"quantum"`
	Pick    uint64 `json:"pick"`
}

func (e envFault) String() string {
	var parts []string
	if e.RandSeed != 0 {
		parts = append(parts, fmt.Sprintf("random seed %d", e.RandSeed))
	}
	if len(e.ClockJumps) > 0 {
		parts = append(parts, fmt.Sprintf("clock jumps %v", e.ClockJumps))
	}
	if e.Procs != 0 {
		parts = append(parts, fmt.Sprintf("%d processors reported to the library", e.Procs))
	}
	if len(e.Tape) > 0 {
		parts = append(parts, fmt.Sprintf("map order tape %v", e.Tape))
	}
	if e.Duo != nil {
		parts = append(parts, fmt.Sprintf("a second caller making the same call on the same object at the same time (time slice %d, pick stream %d, its order tape %v)", e.Duo.Quantum, e.Duo.Pick, e.Duo.Tape))
	}
	if e.Sched != nil {
		parts = append(parts, fmt.Sprintf("the library's own goroutines scheduled with time slice %d, pick stream %d", e.Sched.Quantum, e.Sched.Pick))
	}
	if len(parts) == 0 {
		return "the default environment"
	}
	return strings.Join(parts, ", ")
}

// runOrder executes the case's operation once under the given order tape.
func runOrder(obj *Object, datum interface{}, op string, tape []uint64) orderRun {
	return runOrderEnv(obj, datum, op, tape, envFault{})
}

func runOrderEnv(obj *Object, datum interface{}, op string, tape []uint64, env envFault) orderRun {
	ctx := &verifsim.OpCtx{Obj: 0, Tape: tape, RandSeed: env.RandSeed, ClockJumps: env.ClockJumps}
	pr0, sp0 := verifsim.ProcReads(), verifsim.Spawned()
	verifsim.SetProcs(env.Procs)
	var out Outcome
	call := func() {
		verifsim.BeginOp(ctx)
		if op == "exec" {
			out = obj.Execute(datum)
		} else {
			out = obj.Evaluate(datum)
		}
		verifsim.EndOp()
	}
	deadlock := ""
	if env.Sched == nil {
		call()
	} else {
		// the call is the only planned task of a scheduled run
		dead := make(chan struct{})
		verifsim.SetAbort(func(reason string) {
			deadlock = reason
			close(dead)
			verifsim.Abandon()
		})
		verifsim.SetHardCap(verifsim.Steps() + 50000000)
		verifsim.StartRun(1, 0, env.Sched.Quantum, nil)
		verifsim.SetPick(env.Sched.Pick)
		done := make(chan struct{})
		go func() {
			verifsim.TaskEnter(0)
			call()
			verifsim.TaskExit(0)
			close(done)
		}()
		select {
		case <-done:
			verifsim.WaitChildren()
		case <-dead:
		}
		verifsim.SetHardCap(0)
		verifsim.SetAbort(nil)
		verifsim.BeginMain()
	}
	verifsim.SetProcs(0)
	if deadlock != "" {
		out = Outcome{Op: op, Panic: "simulator: " + deadlock + " among the goroutines of the call"}
	}
	return orderRun{Out: out, Decisions: ctx.Decisions, N: ctx.NDecisions, Steps: ctx.Steps, ClockReads: ctx.ClockReads, RandDraws: ctx.RandDraws,
		ProcReads: verifsim.ProcReads() - pr0, Spawned: verifsim.Spawned() - sp0, Deadlock: deadlock}
}

// caseRunner executes the case's operation under an order tape. Without a
// prelude one object and one datum serve every order (repeating a call); with a
// prelude every order gets a fresh object that first sees the prelude datum.
type caseRunner struct {
	c     C14Case
	obj   *Object
	datum interface{}
	hist  [][]uint64 // tapes executed so far on the shared object, in order
}

func newCaseRunner(c C14Case) *caseRunner {
	return &caseRunner{c: c, obj: NewObject(c.Obj), datum: Build(c.Datum)}
}

func (cr *caseRunner) run(tape []uint64) orderRun {
	obj := cr.obj
	if cr.c.Prelude != nil {
		obj = NewObject(cr.c.Obj)
		runOrder(obj, Build(*cr.c.Prelude), cr.c.Op, nil)
	}
	if cr.c.Prelude == nil {
		cr.hist = append(cr.hist, append([]uint64{}, tape...))
	}
	return runOrder(obj, cr.datum, cr.c.Op, tape)
}

// runEnv is run with an environment fault; it always uses a fresh object (plus
// prelude) so that the call is the object's first one.
func (cr *caseRunner) runEnv(env envFault) orderRun {
	obj := NewObject(cr.c.Obj)
	if cr.c.Prelude != nil {
		runOrder(obj, Build(*cr.c.Prelude), cr.c.Op, nil)
	}
	if env.Duo != nil {
		return runDuo(obj, cr.datum, cr.c.Op, env)
	}
	return runOrderEnv(obj, cr.datum, cr.c.Op, env.Tape, env)
}

// runDuo: two callers make the same call on one object under the cooperative
// scheduler. What one call returns must not depend on the other being there.
func runDuo(obj *Object, datum interface{}, op string, env envFault) orderRun {
	ctxs := [2]*verifsim.OpCtx{{Obj: 0, Tape: env.Tape, Limit: 1 << 20}, {Obj: 0, Tape: env.Duo.Tape, Limit: 1 << 20}}
	var outs [2]Outcome
	deadlock := ""
	dead := make(chan struct{})
	verifsim.SetAbort(func(reason string) {
		deadlock = reason
		close(dead)
		verifsim.Abandon()
	})
	verifsim.SetHardCap(verifsim.Steps() + 50000000)
	verifsim.StartRun(2, 0, env.Duo.Quantum, nil)
	verifsim.SetPick(env.Duo.Pick)
	done := make(chan struct{}, 2)
	for t := 0; t < 2; t++ {
		go func(t int) {
			verifsim.TaskEnter(t)
			verifsim.BeginOp(ctxs[t])
			if op == "exec" {
				outs[t] = obj.Execute(datum)
			} else {
				outs[t] = obj.Evaluate(datum)
			}
			verifsim.EndOp()
			verifsim.TaskExit(t)
			done <- struct{}{}
		}(t)
	}
	finished := 0
	for finished < 2 && deadlock == "" {
		select {
		case <-done:
			finished++
		case <-dead:
		}
	}
	if deadlock == "" {
		verifsim.WaitChildren()
	}
	verifsim.SetHardCap(0)
	verifsim.SetAbort(nil)
	verifsim.BeginMain()
	if deadlock != "" {
		return orderRun{Out: Outcome{Op: op, Panic: "simulator: " + deadlock + " between two callers"}, Deadlock: deadlock}
	}
	// report the caller whose outcome differs from the other's, if any; the
	// exploring loop compares with the single-caller outcome anyway
	r := orderRun{Out: outs[0], Steps: ctxs[0].Steps, N: ctxs[0].NDecisions}
	r.Second = &outs[1]
	return r
}

// history returns the tapes that ran on the shared object before the last one.
func (cr *caseRunner) history() [][]uint64 {
	if len(cr.hist) < 2 {
		return nil
	}
	return append([][]uint64{}, cr.hist[1:len(cr.hist)-1]...)
}

// C14Result is the per-case record.
type C14Result struct {
	Case       C14Case  `json:"case"`
	Orders     int      `json:"orders_explored"`
	Decisions  int      `json:"decision_points"`
	Arities    []int    `json:"arities"`
	Exhaustive bool     `json:"exhaustive_tree"`
	Classes    string   `json:"measured_element_classes,omitempty"`
	Nontrivial bool     `json:"nontrivial"`
	Base       string   `json:"canonical_outcome"`
	PathSens   bool     `json:"order_changed_statement_count"`
	EnvRuns    int      `json:"environment_fault_runs"`
	Violation  *C14Diff `json:"violation,omitempty"`
}

// C14Diff is a pair of orders with different outcomes.
type C14Diff struct {
	TapeA []uint64 `json:"tape_a"`
	TapeB []uint64 `json:"tape_b"`
	// History: the order tapes executed on the same object between tape_a (the
	// first call) and tape_b (the differing call); the replay repeats them
	History [][]uint64 `json:"history,omitempty"`
	// Env: the environment fault (random seed, clock jumps) of the differing call;
	// the first call then is a fresh object's call without any fault
	Env   *envFault `json:"env,omitempty"`
	OutA  Outcome   `json:"outcome_a"`
	OutB  Outcome   `json:"outcome_b"`
	Probe string    `json:"probe,omitempty"`
}

// findMapPath locates the map with identity ptr inside root and returns the
// steps leading to it.
type pathStep struct {
	field int
	key   reflect.Value
	index int
	kind  byte // 'f' field, 'k' map key, 'i' index, 'e' elem
}

func findMapPath(root reflect.Value, ptr uintptr) ([]pathStep, bool) {
	var found []pathStep
	seen := map[uintptr]bool{}
	var walk func(v reflect.Value, path []pathStep, depth int) bool
	walk = func(v reflect.Value, path []pathStep, depth int) bool {
		if !v.IsValid() || depth > 12 {
			return false
		}
		switch v.Kind() {
		case reflect.Ptr, reflect.Interface:
			if v.IsNil() {
				return false
			}
			if v.Kind() == reflect.Ptr {
				if seen[v.Pointer()] {
					return false
				}
				seen[v.Pointer()] = true
			}
			return walk(v.Elem(), append(path, pathStep{kind: 'e'}), depth+1)
		case reflect.Map:
			if v.Pointer() == ptr {
				found = append([]pathStep(nil), path...)
				return true
			}
			for _, k := range v.MapKeys() {
				if walk(v.MapIndex(k), append(path, pathStep{kind: 'k', key: k}), depth+1) {
					return true
				}
			}
		case reflect.Struct:
			for i := 0; i < v.NumField(); i++ {
				if walk(v.Field(i), append(path, pathStep{kind: 'f', field: i}), depth+1) {
					return true
				}
			}
		case reflect.Slice, reflect.Array:
			for i := 0; i < v.Len(); i++ {
				if walk(v.Index(i), append(path, pathStep{kind: 'i', index: i}), depth+1) {
					return true
				}
			}
		}
		return false
	}
	ok := walk(root, nil, 0)
	return found, ok
}

func followPath(root reflect.Value, path []pathStep) reflect.Value {
	v := root
	for _, s := range path {
		if !v.IsValid() {
			return v
		}
		switch s.kind {
		case 'e':
			v = v.Elem()
		case 'k':
			v = v.MapIndex(s.key)
		case 'f':
			v = v.Field(s.field)
		case 'i':
			v = v.Index(s.index)
		}
	}
	return v
}

// measureClasses evaluates the case on every single-entry restriction of the
// first map whose order was decided and returns the outcome class of each
// entry (T true, F false, E error or panic), in canonical key order.
func measureClasses(c C14Case, obj *Object, datum interface{}, first verifsim.Decision) string {
	path, ok := findMapPath(reflect.ValueOf(datum), first.Map)
	if !ok {
		return ""
	}
	m := followPath(reflect.ValueOf(datum), path)
	keys := m.MapKeys()
	sort.Slice(keys, func(i, j int) bool { return fmt.Sprint(keys[i]) < fmt.Sprint(keys[j]) })
	var b strings.Builder
	for _, keep := range keys {
		fresh := Build(c.Datum)
		fm := followPath(reflect.ValueOf(fresh), path)
		if !fm.IsValid() || fm.Kind() != reflect.Map {
			return ""
		}
		for _, k := range fm.MapKeys() {
			if k.Interface() != keep.Interface() {
				fm.SetMapIndex(k, reflect.Value{})
			}
		}
		r := runOrder(obj, fresh, c.Op, nil)
		switch {
		case r.Out.HasErr || r.Out.Panic != "":
			b.WriteByte('E')
		case c.Op == "exec":
			if strings.Contains(r.Out.Value, "(len=1)") {
				b.WriteByte('T')
			} else {
				b.WriteByte('F')
			}
		case r.Out.Bool:
			b.WriteByte('T')
		default:
			b.WriteByte('F')
		}
	}
	return b.String()
}

func classesNontrivial(cl string) bool {
	e := strings.Count(cl, "E")
	return (e >= 1 && e < len(cl)) || e >= 2
}

// sameC14 is the C14 comparator: the same boolean and the same error-or-not
// outcome (a panic counts as an error here: that it is a panic and not an
// error is C09's business), and for Execute the same result.
func sameC14(a, b Outcome) bool {
	ea, eb := a.HasErr || a.Panic != "", b.HasErr || b.Panic != ""
	if ea != eb || a.Skip != b.Skip {
		return false
	}
	if ea {
		return true
	}
	return a.Bool == b.Bool && a.Value == b.Value
}

// RunC14Case explores the orders of one case.
func RunC14Case(c C14Case, seed uint64, tier string) C14Result {
	res := C14Result{Case: c}
	verifsim.Reset()
	verifsim.BeginMain()
	verifsim.SetOrderSeam(true)
	cr := newCaseRunner(c)
	datum := cr.datum
	base := cr.run(nil)
	res.Base = base.Out.String()
	res.Orders = 1
	res.Decisions = base.N
	for _, d := range base.Decisions {
		res.Arities = append(res.Arities, d.N)
	}
	if base.Out.Skip {
		return res
	}
	if base.N == 0 && base.ClockReads == 0 && base.RandDraws == 0 && base.ProcReads == 0 && base.Spawned == 0 {
		return res
	}
	// (measured on an object of its own: the explored object's history must
	// consist of the explored orders only, or the replay could not repeat it)
	if base.N > 0 {
		res.Classes = measureClasses(c, NewObject(c.Obj), datum, base.Decisions[0])
		res.Nontrivial = classesNontrivial(res.Classes)
	}

	r := plan.New(plan.Mix(seed, c.hash()))
	try := func(tape []uint64) bool {
		run := cr.run(tape)
		res.Orders++
		if run.Steps != base.Steps {
			res.PathSens = true
		}
		if !sameC14(run.Out, base.Out) {
			res.Violation = &C14Diff{TapeA: []uint64{}, TapeB: tape, OutA: base.Out, OutB: run.Out, History: cr.history()}
			return false
		}
		return true
	}
	// structured orders at the first decision points
	for j := 0; j < len(base.Decisions) && j < 3; j++ {
		n := base.Decisions[j].N
		mk := func(code uint64) []uint64 {
			t := make([]uint64, j+1)
			t[j] = code
			return t
		}
		if !try(mk(verifsim.CodeReverse)) {
			return res
		}
		for k := 1; k < n; k++ {
			if !try(mk(verifsim.CodeRotate0 + uint64(k))) {
				return res
			}
		}
		for i := 1; i < n; i++ {
			if !try(mk(verifsim.CodeFirst0 + uint64(i))) {
				return res
			}
		}
	}
	// the same orders as a fresh object's first call: whatever an object
	// remembers from its first call (and then sticks to) depends on the order of
	// that call only
	if c.Prelude == nil && base.N > 0 {
		n0 := base.Decisions[0].N
		tapes := [][]uint64{{verifsim.CodeReverse}, {verifsim.CodeRotate0 + 1}, {verifsim.CodeFirst0 + uint64(n0-1)}}
		for i := 0; i < 3; i++ {
			t := make([]uint64, r.Range(1, 3))
			for k := range t {
				t[k] = r.Uint64() % (verifsim.SpecialBase - 1)
			}
			tapes = append(tapes, t)
		}
		for _, t := range tapes {
			run := cr.runEnv(envFault{Tape: t})
			res.Orders++
			if !sameC14(run.Out, base.Out) {
				e := envFault{Tape: t}
				res.Violation = &C14Diff{TapeA: []uint64{}, TapeB: t, OutA: base.Out, OutB: run.Out, Env: &e}
				return res
			}
		}
	}
	// two callers making the same call on one object at the same time: the
	// outcome of a call does not depend on who else is calling (C12 explores
	// shared objects at large; here the order-sensitive cases get a second caller)
	if res.Nontrivial && base.N > 0 {
		n0 := base.Decisions[0].N
		for i := 0; i < 4; i++ {
			env := envFault{Duo: &duoFault{Quantum: []int{1, 2, 3, 7}[i], Pick: uint64(i%2) * (1 + r.Uint64()%1000000),
				Tape: [][]uint64{{verifsim.CodeReverse}, {verifsim.CodeRotate0 + 1}, {verifsim.CodeFirst0 + uint64(n0-1)}, {verifsim.CodeReverse}}[i]}}
			run := cr.runEnv(env)
			res.EnvRuns++
			bad := run.Out
			if sameC14(run.Out, base.Out) && run.Second != nil {
				bad = *run.Second
			}
			if !sameC14(bad, base.Out) {
				e := env
				res.Violation = &C14Diff{TapeA: []uint64{}, TapeB: []uint64{}, OutA: base.Out, OutB: bad, Env: &e}
				return res
			}
		}
	}
	// seeded random tapes over all decision points
	nr := 8
	if tier == "thorough" {
		nr = 32
	}
	for i := 0; i < nr; i++ {
		t := make([]uint64, base.N+2)
		for j := range t {
			t[j] = 1 + r.Uint64()%(verifsim.SpecialBase-1)
		}
		if !try(t) {
			return res
		}
	}
	// the library read the clock or drew random numbers: the outcome must not
	// depend on what it got (other seeds; clock jumps forwards and backwards at
	// seeded points of the call)
	if base.ClockReads > 0 || base.RandDraws > 0 {
		ref := cr.runEnv(envFault{})
		res.EnvRuns++
		deltas := []time.Duration{5 * time.Millisecond, 80 * time.Millisecond, 2 * time.Second, time.Hour, -time.Second, 400 * 24 * time.Hour}
		for i := 0; i < 14; i++ {
			env := envFault{RandSeed: 1 + r.Uint64()%1000000}
			if base.ClockReads > 0 && i%2 == 0 {
				env.ClockJumps = []verifsim.ClockJump{{At: 1 + r.Intn(ref.Steps+1), Delta: deltas[r.Intn(len(deltas))]}}
			}
			run := cr.runEnv(env)
			res.EnvRuns++
			if !sameC14(run.Out, ref.Out) {
				e := env
				res.Violation = &C14Diff{TapeA: []uint64{}, TapeB: []uint64{}, OutA: ref.Out, OutB: run.Out, Env: &e}
				return res
			}
		}
	}
	// the library asked how many processors there are, or started goroutines of
	// its own: the outcome must depend neither on the answer nor on how those
	// goroutines are scheduled
	if base.ProcReads > 0 || base.Spawned > 0 {
		ref := cr.runEnv(envFault{})
		res.EnvRuns++
		procs := []int{0}
		if base.ProcReads > 0 {
			procs = []int{2, 4, 8, 3}
		}
		quanta := []int{1, 2, 3, 5, 8, 13, 40, 0}
		for _, n := range procs {
			envs := []envFault{{Procs: n}}
			for i, q := range quanta {
				envs = append(envs, envFault{Procs: n, Sched: &schedFault{Quantum: q, Pick: 1 + r.Uint64()%1000000}})
				if i%2 == 1 {
					envs[len(envs)-1].Sched.Pick = 0
				}
			}
			for i, env := range envs {
				run := cr.runEnv(env)
				res.EnvRuns++
				if !sameC14(run.Out, ref.Out) {
					e := env
					res.Violation = &C14Diff{TapeA: []uint64{}, TapeB: []uint64{}, OutA: ref.Out, OutB: run.Out, Env: &e}
					return res
				}
				if i == 0 && run.Spawned == 0 {
					break // no goroutines with this many processors: nothing to schedule
				}
			}
		}
	}
	// exhaustive depth-first enumeration of the decision tree when it is small
	maxLeaves := uint64(5040)
	if c.Prelude != nil {
		maxLeaves = 120 // every order costs a fresh object and a prelude call
	}
	leaves := uint64(1)
	for _, d := range base.Decisions {
		f := verifsim.Factorial(d.N)
		if leaves > maxLeaves/f {
			leaves = maxLeaves + 1
			break
		}
		leaves *= f
	}
	if leaves <= maxLeaves && base.N <= len(base.Decisions) {
		res.Exhaustive = true
		tape := []uint64{}
		count := 0
		for {
			run := cr.run(tape)
			res.Orders++
			count++
			if run.Steps != base.Steps {
				res.PathSens = true
			}
			if !sameC14(run.Out, base.Out) {
				res.Violation = &C14Diff{TapeA: []uint64{}, TapeB: append([]uint64(nil), tape...), OutA: base.Out, OutB: run.Out, History: cr.history()}
				return res
			}
			if count > 6000 || run.N > len(run.Decisions) {
				res.Exhaustive = false
				break
			}
			// odometer over the decisions actually taken in this run
			cur := make([]uint64, run.N)
			copy(cur, tape)
			i := run.N - 1
			for i >= 0 {
				cur[i]++
				if cur[i] < verifsim.Factorial(run.Decisions[i].N) {
					break
				}
				cur[i] = 0
				i--
			}
			if i < 0 {
				break
			}
			tape = cur[:i+1]
		}
	}
	return res
}

// MinimizeC14 shrinks a mixed-family datum (drops entries) while some pair of
// explored orders still disagrees; other cases are returned unchanged.
func MinimizeC14(c C14Case, seed uint64, tier string) (C14Case, *C14Diff) {
	res := RunC14Case(c, seed, tier)
	best, bestDiff := c, res.Violation
	if bestDiff == nil || !strings.HasPrefix(c.Datum.Gen, "mixed:") {
		return best, bestDiff
	}
	parts := strings.SplitN(c.Datum.Gen, ":", 3)
	classes := parts[2]
	suffix := ""
	for _, sfx := range []string{":alt", ":num", ":pre", ":case", ":big", ":empty"} {
		if strings.HasSuffix(classes, sfx) {
			suffix = sfx + suffix
			classes = strings.TrimSuffix(classes, sfx)
		}
	}
	if suffix != "" && suffix != ":alt" {
		return best, bestDiff // key names depend on positions: do not drop entries
	}
	keep := plan.DDMinIdx(len(classes), func(k []int) bool {
		if len(k) < 2 {
			return false
		}
		b := make([]byte, len(k))
		for i, j := range k {
			b[i] = classes[j]
		}
		cc := c
		cc.Datum.Gen = parts[0] + ":" + parts[1] + ":" + string(b) + suffix
		r := RunC14Case(cc, seed, tier)
		if r.Violation != nil {
			best, bestDiff = cc, r.Violation
			return true
		}
		return false
	})
	_ = keep
	return best, bestDiff
}

type c14Summary struct {
	Type       string         `json:"type"`
	Cases      int            `json:"cases"`
	Orders     int            `json:"orders"`
	WithDec    int            `json:"cases_with_order_decision"`
	Nontrivial int            `json:"nontrivial_cases"`
	Exhaustive int            `json:"exhaustive_trees"`
	PathSens   int            `json:"cases_where_order_changed_statement_count"`
	Decisions  int            `json:"order_decisions"`
	ByFamily   map[string]int `json:"by_family"`
	Steps      uint64         `json:"statements_executed"`
	Samples    []C14Result    `json:"samples"`
	NTHashes   []uint64       `json:"nontrivial_hashes"`
	ProbeCases []C14Case      `json:"probe_cases"`
	Violations int            `json:"violations"`
	ClassMixes map[string]int `json:"class_mix_histogram"`
	Sentinels  []c14Sentinel  `json:"sentinels"`
	EnvRuns    int            `json:"environment_fault_runs"`
	Aged       int            `json:"process_aged_with_calls"`
}

// c14Sentinel: the same seeded cases are run by every worker process; their
// outcomes must agree across processes (a function of expression, options and
// datum does not depend on the process either).
type c14Sentinel struct {
	Case  C14Case   `json:"case"`
	Pair  []C14Case `json:"pair"`
	Hash  uint64    `json:"hash"`
	Class string    `json:"class"`
}

func sentinelClass(c C14Case) string {
	verifsim.Reset()
	verifsim.BeginMain()
	verifsim.SetOrderSeam(true)
	cr := newCaseRunner(c)
	return outClass(cr.run(nil).Out)
}

func mixKey(cl string) string {
	k := ""
	for _, c := range "EFT" {
		if strings.ContainsRune(cl, c) {
			k += string(c)
		}
	}
	if strings.Count(cl, "E") >= 2 {
		k += "(2+E)"
	}
	return k
}

// AgeProcess makes the process an old one before anything is explored in it:
// quantifiers over n maps with n different key sets, a text operator applied to
// n different strings, n different expressions parsed. Tables with a capacity,
// counters with a threshold and memos that start evicting are then past their
// first fill. Every second worker process is aged, so young processes stay
// covered as well.
func AgeProcess(seed uint64, n int) {
	r := plan.New(plan.Mix(seed, 0xa9e))
	q := NewObject(ObjSpec{Kind: "evaluator", Expr: `( any m as k, v { v == 0 } ) or name matches "^zz" or name in tags`})
	f := NewObject(ObjSpec{Kind: "filter", Expr: `v != 0`})
	if q.Ev == nil || f.Fl == nil {
		panic("AgeProcess: cannot create its objects: " + q.Err + q.Pan + f.Err + f.Pan)
	}
	for i := 0; i < n; i++ {
		m := map[string]interface{}{}
		for j, k := 0, r.Range(2, 4); j < k; j++ {
			m[fmt.Sprintf("age-%d-%d", i, j)] = j + 1
		}
		q.Evaluate(map[string]interface{}{"m": m, "name": fmt.Sprintf("aged-%05d", i), "tags": []string{"t", fmt.Sprintf("tag-%d", i)}})
		if i%4 == 0 {
			rec := map[string]interface{}{}
			for k, v := range m {
				rec[k] = map[string]interface{}{"v": v}
			}
			f.Execute(rec)
		}
		if i%5 == 0 {
			NewObject(ObjSpec{Kind: "evaluator", Expr: fmt.Sprintf(`age%d == %d and "x%d" in tags`, i, i, i)})
		}
	}
}

func workerC14(cfg WorkerCfg) int {
	sum := c14Summary{Type: "summary", ByFamily: map[string]int{}, ClassMixes: map[string]int{}}
	if cfg.From%2 == 1 {
		AgeProcess(cfg.Seed, 1600)
		sum.Aged = 1600
	}
	for idx := cfg.From; idx < cfg.To; idx += cfg.Stride {
		if cfg.expired() {
			break
		}
		c := GenC14Case(cfg.Seed, idx)
		res := RunC14Case(c, cfg.Seed, cfg.Tier)
		sum.Steps += verifsim.Steps()
		sum.Cases++
		sum.Orders += res.Orders
		sum.ByFamily[c.Family]++
		sum.Decisions += res.Decisions * res.Orders
		sum.EnvRuns += res.EnvRuns
		if res.Decisions > 0 {
			sum.WithDec++
		}
		if res.Exhaustive {
			sum.Exhaustive++
		}
		if res.PathSens {
			sum.PathSens++
		}
		if res.Nontrivial {
			sum.Nontrivial++
			sum.NTHashes = append(sum.NTHashes, c.hash())
			sum.ClassMixes[mixKey(res.Classes)]++
			if len(sum.ProbeCases) < cfg.K {
				sum.ProbeCases = append(sum.ProbeCases, c)
			}
			if len(sum.Samples) < 2 && res.Violation == nil {
				sum.Samples = append(sum.Samples, res)
			}
		}
		if res.Violation != nil {
			min, diff := MinimizeC14(c, cfg.Seed, cfg.Tier)
			sum.Violations++
			kind, key := "order-dependent", fmt.Sprintf("C14/order/%s/%s", min.Op, min.Family)
			detail := fmt.Sprintf("%s %q on datum %s: canonical order gives %s, order tape %v gives %s", min.Op, min.Obj.Expr, min.Datum.String(), diff.OutA, diff.TapeB, diff.OutB)
			if diff.Env != nil && diff.Env.orderOnly() {
				detail = fmt.Sprintf("%s %q on datum %s: a fresh object's first call in canonical order gives %s, a fresh object's first call with order tape %v gives %s", min.Op, min.Obj.Expr, min.Datum.String(), diff.OutA, diff.Env.Tape, diff.OutB)
			} else if diff.Env != nil {
				kind, key = "environment-dependent", fmt.Sprintf("C14/environment/%s/%s", min.Op, min.Family)
				detail = fmt.Sprintf("%s %q on datum %s: a fresh object's call gives %s; the same call with %s gives %s", min.Op, min.Obj.Expr, min.Datum.String(), diff.OutA, diff.Env.String(), diff.OutB)
			}
			cfg.Emit(Violation{Type: "violation", Property: "C14", Engine: "ordersim", Kind: kind,
				Key:    key,
				Detail: detail,
				Seed:   cfg.Seed, Index: idx,
				Replay: mustJSON(map[string]interface{}{"engine": "ordersim", "property": "C14", "build": "plain", "seed": cfg.Seed, "case": min, "diff": diff, "datum_canon": clip(Canon(Build(min.Datum), false), 2000),
					// the seeded slice of cases this worker process had executed when it found the
					// difference: a second way to replay it when the difference depends on what
					// the process did before (state the library keeps per process)
					"process_slice": map[string]interface{}{"from": cfg.From, "stride": cfg.Stride, "index": idx, "tier": cfg.Tier}})})
		}
	}
	// Sentinels come in two option variants of the same expression text (with and
	// without an unknown-value substitute); half of the worker processes create
	// the lenient variant first, the other half the strict one, so that anything
	// the library remembers per expression text across objects shows up as a
	// disagreement between processes.
	for i := 0; i < 80; i++ {
		strict := GenC14Case(cfg.Seed, 5000000+i)
		strict.Obj.Opts.Unknown = ""
		strict.Prelude = nil
		if strict.Obj.Kind == "evaluator" && i%2 == 0 {
			// make the option matter: a selector that no datum has decides the outcome
			// (unknown value 1 -> true; no unknown value -> an error or false)
			strict.Obj.Expr = "( " + strict.Obj.Expr + " ) or zz_missing == 1"
		}
		lenient := strict
		lenient.Obj.Opts.Unknown = "int:1"
		pair := []C14Case{strict, lenient}
		if cfg.From%2 == 0 || strict.Obj.Kind == "filter" {
			pair = []C14Case{lenient, strict}
		}
		if strict.Obj.Kind == "filter" {
			pair = []C14Case{strict}
		}
		for _, c := range pair {
			sum.Sentinels = append(sum.Sentinels, c14Sentinel{Case: c, Pair: []C14Case{strict, lenient}, Hash: c.hash(), Class: sentinelClass(c)})
		}
	}
	cfg.Emit(sum)
	return 0
}

func replayC14(cfg WorkerCfg) int {
	b, err := os.ReadFile(cfg.File)
	if err != nil {
		fmt.Fprintln(os.Stderr, err)
		return 2
	}
	var doc struct {
		Build     string    `json:"build"`
		Seed      uint64    `json:"seed"`
		Case      C14Case   `json:"case"`
		Diff      *C14Diff  `json:"diff"`
		R         int       `json:"r"`
		CrossProc bool      `json:"cross_process"`
		Pair      []C14Case `json:"pair"`
	}
	if err := json.Unmarshal(b, &doc); err != nil {
		fmt.Fprintln(os.Stderr, err)
		return 2
	}
	if doc.CrossProc {
		// the driver runs this in several fresh processes (alternating the order in
		// which the sibling cases are created) and compares the classes
		pair := doc.Pair
		if cfg.K%2 == 1 {
			for i, j := 0, len(pair)-1; i < j; i, j = i+1, j-1 {
				pair[i], pair[j] = pair[j], pair[i]
			}
		}
		class := ""
		for _, c := range pair {
			cl := sentinelClass(c)
			if c.hash() == doc.Case.hash() {
				class = cl
			}
		}
		if class == "" {
			class = sentinelClass(doc.Case)
		}
		cfg.Emit(map[string]interface{}{"type": "replay", "reproduced": false, "class": class})
		return 0
	}
	if doc.Build == "pure" {
		d := probeCase(doc.Case, doc.R)
		cfg.Emit(map[string]interface{}{"type": "replay", "reproduced": d != nil, "diff": d})
		return 0
	}
	verifsim.Reset()
	verifsim.BeginMain()
	verifsim.SetOrderSeam(true)
	if doc.Diff != nil && doc.Diff.Env != nil {
		cr := newCaseRunner(doc.Case)
		a := cr.runEnv(envFault{})
		bb := cr.runEnv(*doc.Diff.Env)
		if bb.Second != nil && sameC14(a.Out, bb.Out) {
			bb.Out = *bb.Second // duo: either caller may be the one that differs
		}
		cfg.Emit(map[string]interface{}{"type": "replay", "reproduced": !sameC14(a.Out, bb.Out), "outcome_a": a.Out, "outcome_b": bb.Out, "clock_reads": bb.ClockReads, "rand_draws": bb.RandDraws})
		return 0
	}
	cr := newCaseRunner(doc.Case)
	a := cr.run(doc.Diff.TapeA)
	for _, h := range doc.Diff.History {
		cr.run(h)
	}
	bb := cr.run(doc.Diff.TapeB)
	cfg.Emit(map[string]interface{}{"type": "replay", "reproduced": !sameC14(a.Out, bb.Out), "outcome_a": a.Out, "outcome_b": bb.Out,
		"decisions_a": a.Decisions, "decisions_b": bb.Decisions})
	return 0
}

// probeCase repeats the operation r times under the real runtime (no seam) and
// returns the first pair of differing outcomes.
func probeCase(c C14Case, r int) *C14Diff {
	obj := NewObject(c.Obj)
	datum := Build(c.Datum)
	var first Outcome
	for i := 0; i < r; i++ {
		if c.Prelude != nil {
			obj = NewObject(c.Obj)
			if c.Op == "exec" {
				obj.Execute(Build(*c.Prelude))
			} else {
				obj.Evaluate(Build(*c.Prelude))
			}
		}
		var out Outcome
		if c.Op == "exec" {
			out = obj.Execute(datum)
		} else {
			out = obj.Evaluate(datum)
		}
		if i == 0 {
			first = out
			continue
		}
		if !sameC14(out, first) {
			return &C14Diff{OutA: first, OutB: out, Probe: fmt.Sprintf("repetition %d of %d under the real runtime", i+1, r)}
		}
	}
	return nil
}

// workerC14Probe runs the uncontrolled-repetition probe over the cases listed
// (one JSON document per line) in cfg.File. Meant for the uninstrumented build.
func workerC14Probe(cfg WorkerCfg) int {
	b, err := os.ReadFile(cfg.File)
	if err != nil {
		fmt.Fprintln(os.Stderr, err)
		return 2
	}
	r := cfg.K
	if r <= 0 {
		r = 200
	}
	n, viol := 0, 0
	lines := strings.Split(strings.TrimSpace(string(b)), "\n")
	for i := cfg.From; i < len(lines); i += cfg.Stride {
		if cfg.expired() {
			break
		}
		var c C14Case
		if json.Unmarshal([]byte(lines[i]), &c) != nil {
			continue
		}
		n++
		if d := probeCase(c, r); d != nil {
			viol++
			cfg.Emit(Violation{Type: "violation", Property: "C14", Engine: "ordersim", Kind: "unstable-under-real-runtime",
				Key:    fmt.Sprintf("C14/probe/%s/%s", c.Op, c.Family),
				Detail: fmt.Sprintf("%s %q on datum %s repeated under the real runtime: first %s, then (%s) %s; an order source the seam does not control, or another nondeterminism source", c.Op, c.Obj.Expr, c.Datum.String(), d.OutA, d.Probe, d.OutB),
				Seed:   cfg.Seed, Index: i,
				Replay: mustJSON(map[string]interface{}{"engine": "ordersim", "property": "C14", "build": "pure", "seed": cfg.Seed, "case": c, "diff": d, "r": 4 * r, "statistical": true})})
		}
	}
	cfg.Emit(map[string]interface{}{"type": "summary", "probed_cases": n, "repetitions_each": r, "calls": n * r, "violations": viol})
	return 0
}

func init() {
	extraCommands["c14"] = workerC14
	extraCommands["c14-replay"] = replayC14
	extraCommands["c14-probe"] = workerC14Probe
	extraCommands["show-c14"] = func(cfg WorkerCfg) int {
		for idx := cfg.From; idx < cfg.To; idx += cfg.Stride {
			c := GenC14Case(cfg.Seed, idx)
			res := RunC14Case(c, cfg.Seed, cfg.Tier)
			fmt.Printf("%d %s %s %q datum=%s orders=%d dec=%v classes=%s nt=%v exh=%v base=%s viol=%v\n", idx, c.Family, c.Op, c.Obj.Expr, c.Datum, res.Orders, res.Arities, res.Classes, res.Nontrivial, res.Exhaustive, clip(res.Base, 80), res.Violation != nil)
		}
		return 0
	}
}
