package engine

import (
	"encoding/json"
	"fmt"
	"os"

	"verif.local/verifsim"
)

// ---- C11: a limited parse is a function of (input, budget) -----------------------
//
// "For every input there is a step count N": the answer to one input under one
// budget must not depend on whether the process has seen the input (or a part
// of it) before. Inputs that the process has never parsed are therefore probed
// *twice in a row* under budgets around their step count: fresh twins of a few
// templates, equal in shape and length, different in one token.

var twinTemplates = []string{
	`"/c11/%s/k" == 1`,
	`svc.%s.port == 8080`,
	`name == "%s"`,
	"raw == `%s`",
	`"%s" in tags and n != 3`,
	`any items as %s { %s.x == 1 }`,
	`meta["%s"] is not empty`,
}

func twinInput(tmpl int, seed uint64, w, k int) []byte {
	tok := fmt.Sprintf("t%03dw%02dk%05d", seed%1000, w%100, k%100000)
	t := twinTemplates[tmpl%len(twinTemplates)]
	if tmpl%len(twinTemplates) == 5 {
		return []byte(fmt.Sprintf(t, tok, tok))
	}
	return []byte(fmt.Sprintf(t, tok))
}

type twinDoc struct {
	Seed uint64 `json:"seed"`
	Twin *struct {
		Input []byte `json:"input"`
		N     uint64 `json:"n"`
		API   int    `json:"api"`
	} `json:"twin"`
}

// runTwins returns the number of probes and emits violations through emit.
func runTwins(env *C11Env, seed uint64, w int, emit func(Violation)) (probes int) {
	k := 0
	for tmpl := range twinTemplates {
		// the shape's step count, measured on a twin of its own
		k++
		_, S, _ := limitedParse(apiParse, twinInput(tmpl, seed, w, k), 0, false, 0, env.EntrySites)
		if S < 30 {
			continue
		}
		reported := false
		for n := S - 28; n <= S+4 && !reported; n++ {
			for api := 0; api < 2 && !reported; api++ {
				k++
				in := twinInput(tmpl, seed, w, k)
				a, _, _ := limitedParse(api, in, n, true, 0, env.EntrySites)
				b, _, _ := limitedParse(api, in, n, true, 0, env.EntrySites)
				probes += 2
				if !a.same(b) {
					reported = true
					emit(Violation{Type: "violation", Property: "C11", Engine: "abortsim", Kind: "unstable",
						Key: "C11/unstable/" + apiNames[api],
						Detail: fmt.Sprintf("%s: input %q, never parsed by the process before, under budget n=%d: the first parse gave %s, the same parse repeated at once gave %s - the step count of an input is not a function of the input",
							apiNames[api], in, n, a.brief(), b.brief()),
						Seed: seed, Index: tmpl,
						Replay: mustJSON(map[string]interface{}{"engine": "abortsim", "property": "C11", "seed": seed,
							"twin": map[string]interface{}{"input": in, "n": n, "api": api}})})
				}
			}
		}
	}
	return probes
}

func (o parseOutcome) brief() string {
	switch {
	case o.Panic != "":
		return "panic(" + clip(o.Panic, 80) + ")"
	case o.Err != "":
		return "error(" + clip(o.Err, 80) + ")"
	case o.OK:
		return "a syntax tree"
	}
	return "nothing"
}

// replayTwin: the input is new to this fresh process too.
func replayTwin(cfg WorkerCfg) (handled bool, code int) {
	b, err := os.ReadFile(cfg.File)
	if err != nil {
		return false, 0
	}
	var doc twinDoc
	if json.Unmarshal(b, &doc) != nil || doc.Twin == nil {
		return false, 0
	}
	env := NewC11Env()
	verifsim.Reset()
	verifsim.BeginMain()
	a, _, _ := limitedParse(doc.Twin.API, doc.Twin.Input, doc.Twin.N, true, 0, env.EntrySites)
	c, _, _ := limitedParse(doc.Twin.API, doc.Twin.Input, doc.Twin.N, true, 0, env.EntrySites)
	cfg.Emit(map[string]interface{}{"type": "replay", "reproduced": !a.same(c), "first": a, "second": c})
	return true, 0
}
