package engine

import (
	"fmt"
	"math"
	"reflect"
	"sort"
	"strconv"
	"strings"
)

// Canon renders v as canonical text: values, dynamic types, lengths, pointer
// and backing-array topology (first-visit numbering), unexported fields, and -
// when upToCap is set - the contents of slices beyond len up to cap. Two
// values with equal Canon text are observationally identical for every
// reflection-based reader. Only the read-only reflect API is used, so nothing
// is copied or unlocked.
func Canon(v interface{}, upToCap bool) string {
	c := &canon{ptrs: map[uintptr]int{}, cap: upToCap}
	c.val(reflect.ValueOf(v), 0)
	return c.b.String()
}

type canon struct {
	b    strings.Builder
	ptrs map[uintptr]int
	cap  bool
}

func (c *canon) id(p uintptr) (int, bool) {
	if n, ok := c.ptrs[p]; ok {
		return n, true
	}
	n := len(c.ptrs) + 1
	c.ptrs[p] = n
	return n, false
}

func (c *canon) val(v reflect.Value, depth int) {
	if !v.IsValid() {
		c.b.WriteString("<invalid>")
		return
	}
	if depth > 40 {
		c.b.WriteString("<deep>")
		return
	}
	switch v.Kind() {
	case reflect.Bool:
		c.b.WriteString(strconv.FormatBool(v.Bool()))
	case reflect.Int, reflect.Int8, reflect.Int16, reflect.Int32, reflect.Int64:
		c.b.WriteString(strconv.FormatInt(v.Int(), 10))
	case reflect.Uint, reflect.Uint8, reflect.Uint16, reflect.Uint32, reflect.Uint64, reflect.Uintptr:
		c.b.WriteString(strconv.FormatUint(v.Uint(), 10))
		c.b.WriteByte('u')
	case reflect.Float32, reflect.Float64:
		c.b.WriteString(strconv.FormatUint(math.Float64bits(v.Float()), 16))
		c.b.WriteByte('f')
	case reflect.Complex64, reflect.Complex128:
		fmt.Fprintf(&c.b, "%v", v.Complex())
	case reflect.String:
		c.b.WriteString(strconv.Quote(v.String()))
	case reflect.Ptr:
		if v.IsNil() {
			c.b.WriteString("nil*")
			return
		}
		n, seen := c.id(v.Pointer())
		fmt.Fprintf(&c.b, "&%d", n)
		if !seen {
			c.b.WriteByte('(')
			c.val(v.Elem(), depth+1)
			c.b.WriteByte(')')
		}
	case reflect.Interface:
		if v.IsNil() {
			c.b.WriteString("nil-iface")
			return
		}
		e := v.Elem()
		c.b.WriteString("<" + e.Type().String() + ">")
		c.val(e, depth+1)
	case reflect.Struct:
		c.b.WriteString(v.Type().String() + "{")
		for i := 0; i < v.NumField(); i++ {
			c.b.WriteString(v.Type().Field(i).Name + ":")
			c.val(v.Field(i), depth+1)
			c.b.WriteByte(',')
		}
		c.b.WriteByte('}')
	case reflect.Array:
		c.b.WriteString("[" + strconv.Itoa(v.Len()) + "]{")
		for i := 0; i < v.Len(); i++ {
			c.val(v.Index(i), depth+1)
			c.b.WriteByte(',')
		}
		c.b.WriteByte('}')
	case reflect.Slice:
		if v.IsNil() {
			c.b.WriteString("nil[]")
			return
		}
		n := v.Len()
		fmt.Fprintf(&c.b, "[]%s(len=%d", v.Type().Elem().String(), n)
		full := v
		if c.cap {
			fmt.Fprintf(&c.b, ",cap=%d", v.Cap())
			if v.Cap() > 0 {
				id, _ := c.id(v.Pointer())
				fmt.Fprintf(&c.b, ",arr=%d", id)
			}
			full = v.Slice(0, v.Cap())
		}
		c.b.WriteString("){")
		for i := 0; i < full.Len(); i++ {
			if i == n {
				c.b.WriteString("|beyond-len|")
			}
			c.val(full.Index(i), depth+1)
			c.b.WriteByte(',')
		}
		c.b.WriteByte('}')
	case reflect.Map:
		if v.IsNil() {
			c.b.WriteString("nil-map")
			return
		}
		n, seen := c.id(v.Pointer())
		fmt.Fprintf(&c.b, "map%d[%s](len=%d)", n, v.Type().String(), v.Len())
		if seen {
			return
		}
		keys := v.MapKeys()
		ks := make([]string, len(keys))
		for i, k := range keys {
			kc := &canon{ptrs: map[uintptr]int{}, cap: false}
			kc.val(k, 0)
			ks[i] = kc.b.String()
		}
		idx := make([]int, len(keys))
		for i := range idx {
			idx[i] = i
		}
		sort.Slice(idx, func(a, b int) bool { return ks[idx[a]] < ks[idx[b]] })
		c.b.WriteByte('{')
		for _, i := range idx {
			c.b.WriteString(ks[i] + "=>")
			c.val(v.MapIndex(keys[i]), depth+1)
			c.b.WriteByte(',')
		}
		c.b.WriteByte('}')
	case reflect.Func:
		if v.IsNil() {
			c.b.WriteString("nil-func")
		} else {
			c.b.WriteString("func")
		}
	case reflect.Chan, reflect.UnsafePointer:
		n, _ := c.id(v.Pointer())
		fmt.Fprintf(&c.b, "%s#%d", v.Kind(), n)
	default:
		c.b.WriteString("<" + v.Kind().String() + ">")
	}
}

// CanonHash is a 64-bit digest of Canon(v).
func CanonHash(v interface{}, upToCap bool) uint64 {
	return hashBytes([]byte(Canon(v, upToCap)))
}

// firstDiff returns a short description of where two canonical texts differ.
func firstDiff(a, b string) string {
	n := len(a)
	if len(b) < n {
		n = len(b)
	}
	i := 0
	for i < n && a[i] == b[i] {
		i++
	}
	lo := i - 60
	if lo < 0 {
		lo = 0
	}
	cut := func(s string) string {
		hi := i + 60
		if hi > len(s) {
			hi = len(s)
		}
		return s[lo:hi]
	}
	return fmt.Sprintf("at byte %d: before %q after %q", i, cut(a), cut(b))
}
