// Package engine contains the workload generators, the op executor and the
// oracles of the three simulation engines (abortsim, ordersim, simsched). It is
// linked against the scratch copy of go-bexpr by the simworker binary.
package engine

import (
	"encoding/json"
	"fmt"
	"reflect"
	"sort"
	"strings"

	"verif.local/verif/simlib/plan"
)

// ---- datum types -----------------------------------------------------------

type Inner struct {
	X      int
	Y      string `bexpr:"y" json:"why"`
	Z      []int
	F      float64
	B      bool
	M      map[string]string
	P      *Inner
	hidden int
	Skip   string `bexpr:"-" json:"-"`
}

// Wrapper is unwrapped by the "unwrap" hook.
type Wrapper struct{ V interface{} }

type NamedStr string

// JSONOnly has json tags and no bexpr tags: with the default tag name its
// fields are addressed by their Go names.
type JSONOnly struct {
	Name string            `json:"name"`
	Port int               `json:"port"`
	Meta map[string]string `json:"meta"`
	Tags []string          `json:"tags"`
}

// BexprTagged spells the same fields through bexpr tags.
type BexprTagged struct {
	Name string            `bexpr:"name"`
	Port int               `bexpr:"port"`
	Meta map[string]string `bexpr:"meta"`
	Tags []string          `bexpr:"tags"`
}
type NamedSlice []Inner
type NamedMap map[string]Inner

type Doc struct {
	Name   string
	Port   int `bexpr:"port" json:"Port2"`
	Tags   []string
	Meta   map[string]string
	Nested Inner
	Ptr    *Inner
	List   []Inner
	PList  []*Inner
	MapS   map[string]Inner
	MapP   map[string]*Inner
	MapL   map[string][]int
	MapM   map[string]map[string]string
	MapI   map[string]interface{}
	IntKey map[int]string
	Any    interface{}
	F32    float32
	U8     uint8
	I64    int64
	Bytes  []byte
	Arr    [3]int
	W      Wrapper
	NS     NamedStr
	PStr   []*string // pointer elements, some of them nil
	PPInt  []**int   // two levels, nil at either
	Digest [8]byte   // fixed-size byte array
	Code   NamedInt  // named numeric type
	secret string
	Skip   string `bexpr:"-" json:"-"`
}

var words = []string{"", "a", "ab", "abc", "foo", "bar", "baz", "foobar", "web-1", "web-2", "db", "10.0.0.1", "x y", "Ünï", "true", "42", "red", "blue"}
var keyWords = []string{"a", "b", "c", "foo", "bar", "x", "name", "tags", "meta", "n", "k1", "k2", "k3", "co:lon", "with space", "ünï", "0", "Name", "NAME", "Foo", "FOO", "Env", "ENV", "env", "9", "10", "1a", "2", "4a", "sl/ash", "ti~lde", "dot.ted", "", "a b", "-"}

// DatumGens lists the constructors for Evaluate data.
var DatumGens = []string{"doc", "docptr", "json", "jsonnum", "tmap:int", "tmap:slice", "tmap:map", "tmap:ptr", "tmap:any", "tmap:inner", "tmap:ikey", "tmap:nkey", "longlist", "odd", "odd", "bytesdoc", "bytesdoc", "names", "floats", "floats", "ptrlists"}

// CollGens lists the constructors for Filter.Execute containers.
var CollGens = []string{"coll:slice", "coll:ptrslice", "coll:array", "coll:arrayptr", "coll:arrayany", "coll:arraymap", "coll:map", "coll:intmap", "coll:named", "coll:namedmap", "coll:jsonlist", "coll:anys", "coll:nilslice", "coll:empty", "coll:anymap", "coll:ptrmap", "coll:scalar", "coll:huge", "coll:names"}

func Build(d DatumSpec) interface{} {
	r := plan.New(plan.Mix(d.Seed, 0xda7a))
	var v interface{}
	switch {
	case d.Gen == "doc":
		v = *genDoc(r)
	case d.Gen == "docptr":
		v = genDoc(r)
	case d.Gen == "json":
		v = genJSON(r, 0, false)
	case d.Gen == "jsonnum":
		v = genJSON(r, 0, true)
	case d.Gen == "bytesdoc":
		// a small record whose text lives in byte buffers the caller reuses
		v = map[string]interface{}{
			"buf":  []byte(r.Pick([]string{"DEBUG all fine.", "ERROR disk full", "WARN  low space ", "status=200 ok  ", "status=404 gone", "id-\xff\xfe-tail", "0123456789abcdef\xffz", "ERROR \xc3(", "\x80\x80ok"})),
			"raw":  json.RawMessage(r.Pick([]string{`{"a":1}`, `{"b":2}`, `[1,2,3]`})),
			"line": []byte(r.Pick(words) + " " + r.Pick(words)),
			"n":    r.Range(0, 3),
		}
	case d.Gen == "ptrlists":
		// lists whose elements are pointers, some of them nil, one or two levels deep
		mk := func(n int) ([]*string, []*int, []**int) {
			var ps []*string
			var is []*int
			var pps []**int
			for i := 0; i < n; i++ {
				if r.Chance(0.3) {
					ps = append(ps, nil)
				} else {
					w := r.Pick(words)
					ps = append(ps, &w)
				}
				if r.Chance(0.3) {
					is = append(is, nil)
				} else {
					x := r.Range(0, 9)
					is = append(is, &x)
				}
				switch r.Intn(3) {
				case 0:
					pps = append(pps, nil)
				case 1:
					var inner *int
					pps = append(pps, &inner)
				default:
					x := r.Range(0, 9)
					px := &x
					pps = append(pps, &px)
				}
			}
			return ps, is, pps
		}
		ps, is, pps := mk(r.Range(2, 6))
		v = map[string]interface{}{"names": ps, "nums": is, "deep": pps, "n": len(ps)}
	case d.Gen == "tagged":
		// one record in four representations (seed%4): json-tagged struct, its
		// pointer, bexpr-tagged struct, plain map
		name := []string{"web", "db", "api"}[int(d.Seed/4)%3]
		port := []int{80, 443, 8080}[int(d.Seed/12)%3]
		meta := map[string]string{"env": []string{"prod", "dev"}[int(d.Seed/36)%2]}
		tags := []string{"a", name}
		switch d.Seed % 4 {
		case 0:
			v = JSONOnly{Name: name, Port: port, Meta: meta, Tags: tags}
		case 1:
			v = &JSONOnly{Name: name, Port: port, Meta: meta, Tags: tags}
		case 2:
			v = BexprTagged{Name: name, Port: port, Meta: meta, Tags: tags}
		default:
			v = map[string]interface{}{"name": name, "Name": name, "port": port, "Port": port, "meta": meta, "tags": tags}
		}
	case d.Gen == "inlist":
		// []interface{} lists with one "hit" at a seeded position and, in half of
		// them, an element no literal can be compared with at another position
		n := 3 + int(d.Seed/7)%4
		l := make([]interface{}, n)
		for i := range l {
			l[i] = []interface{}{"a", "b", 7, "c", 2.5, "d"}[(i+int(d.Seed))%6]
		}
		hit := int(d.Seed) % n
		l[hit] = "hit"
		if (d.Seed/3)%2 == 0 {
			bad := int(d.Seed/5) % n
			if bad != hit {
				l[bad] = map[string]interface{}{"m": 1}
			}
		}
		v = map[string]interface{}{"xs": l, "n": n}
	case d.Gen == "floats":
		// the same decimal numbers as float32 in one datum and float64 in the next:
		// 0.1, 0.3, 1.1 are different numbers at the two widths
		dec := []float64{0.1, 0.3, 1.1, 2.5, 0.7}
		k := int(d.Seed/2) % len(dec)
		wide := d.Seed%2 == 0 // (seed and seed^1 are the same record at the two widths)
		f := func(x float64) interface{} {
			if wide {
				return x
			}
			return float32(x)
		}
		v = map[string]interface{}{
			"ratio": f(dec[k]),
			"load":  f(dec[(k+1)%len(dec)]),
			"xs":    []interface{}{f(7), f(dec[k]), float64(dec[(k+2)%len(dec)]), float32(dec[(k+3)%len(dec)])},
			"ws":    []float32{float32(dec[k]), 2},
			"wd":    []float64{dec[k], 2},
			"n":     k,
		}
	case d.Gen == "odd":
		v = genOdd(r)
	case d.Gen == "nil":
		v = nil
	case d.Gen == "scalar":
		v = genScalarOrSmall(r)
	case d.Gen == "longlist":
		v = genLongList(r)
	case d.Gen == "coll:huge":
		// large enough for any "big input" path (chunking, parallelism, binary
		// search); a few elements of another kind sit at seeded positions
		n := r.Range(1030, 1300)
		l := make([]interface{}, n)
		for i := range l {
			l[i] = map[string]interface{}{"X": i % 7, "y": "s", "B": i%2 == 0}
		}
		l[r.Intn(n)] = 12345
		l[r.Intn(n)] = "odd one out"
		if r.Chance(0.5) {
			l[r.Intn(n)] = []int{1}
		}
		v = l
	case d.Gen == "coll:names" || d.Gen == "names":
		// more distinct short strings than any bounded memo holds (1024 is the
		// usual size): records whose names all differ, with a handful of prefixes
		n := r.Range(1100, 2600)
		if r.Chance(0.3) {
			n = r.Range(257, 700) // just above the usual small-input thresholds, rarely a multiple of 64
		}
		pre := []string{"web", "db", "cache", "api", "job"}
		off, run := r.Intn(len(pre)), r.Range(1, 90)
		l := make([]Inner, n)
		names := make([]string, n)
		for i := range l {
			// (two data of this kind differ at the same index: the prefix pattern is
			// shifted per datum, and runs of one prefix have a per-datum length)
			names[i] = fmt.Sprintf("%s-%04d", pre[(i/run+i*7+off)%len(pre)], i)
			l[i] = Inner{X: i, Y: names[i], B: (i+off)%3 == 0}
		}
		if d.Gen == "names" {
			v = map[string]interface{}{"items": names, "n": n}
		} else {
			v = l
		}
	case d.Gen == "coll:long":
		n := r.Range(9, 40)
		l := make([]Inner, n)
		for i := range l {
			l[i] = genInner(r, 2)
			l[i].X = 100 + i
			l[i].Y = fmt.Sprintf("n%d", i)
			l[i].Z = append(l[i].Z, 500+i)
		}
		v = l
	case strings.HasPrefix(d.Gen, "tmap:"):
		v = genTMap(r, d.Gen[5:])
	case strings.HasPrefix(d.Gen, "coll:"):
		v = genColl(r, d.Gen[5:])
	case strings.HasPrefix(d.Gen, "mixed:"):
		v = genMixed(d.Gen[6:])
	case strings.HasPrefix(d.Gen, "lit:"):
		var x interface{}
		dec := json.NewDecoder(strings.NewReader(d.Gen[4:]))
		if err := dec.Decode(&x); err != nil {
			panic("bad lit datum: " + err.Error())
		}
		v = x
	default:
		panic("unknown datum generator " + d.Gen)
	}
	for _, m := range d.Muts {
		Mutate(v, m)
	}
	return v
}

// listLen is mostly small, sometimes well beyond any small-size fast path.
func listLen(r *plan.Rand, small int) int {
	if r.Chance(0.12) {
		return r.Range(9, 34)
	}
	return r.Intn(small)
}

func spareInts(r *plan.Rand, n int) []int {
	s := make([]int, n, n+2)
	for i := range s {
		s[i] = r.Range(-3, 12)
	}
	full := s[:cap(s)]
	for i := n; i < len(full); i++ {
		full[i] = 777000 + i // sentinel beyond len
	}
	return s
}

func spareStrings(r *plan.Rand, n int) []string {
	s := make([]string, n, n+2)
	for i := range s {
		s[i] = r.Pick(words)
	}
	full := s[:cap(s)]
	for i := n; i < len(full); i++ {
		full[i] = "SENTINEL"
	}
	return s
}

func strMap(r *plan.Rand, n int) map[string]string {
	m := make(map[string]string, n)
	for i := 0; i < n; i++ {
		m[r.Pick(keyWords)] = r.Pick(words)
	}
	return m
}

func genInner(r *plan.Rand, depth int) Inner {
	in := Inner{
		X:      r.Range(-3, 12),
		Y:      r.Pick(words),
		Z:      spareInts(r, listLen(r, 4)),
		F:      float64(r.Range(-20, 50)) / 4,
		B:      r.Chance(0.5),
		hidden: r.Intn(100),
		Skip:   r.Pick(words),
	}
	if r.Chance(0.6) {
		in.M = strMap(r, r.Intn(4))
	}
	if depth < 2 && r.Chance(0.4) {
		p := genInner(r, depth+1)
		in.P = &p
	}
	return in
}

func genDoc(r *plan.Rand) *Doc {
	d := &Doc{
		Name:   r.Pick(words),
		Port:   r.Range(0, 9000),
		Tags:   spareStrings(r, listLen(r, 4)),
		Meta:   strMap(r, r.Intn(5)),
		Nested: genInner(r, 0),
		F32:    float32(r.Range(-8, 8)) / 2,
		U8:     uint8(r.Intn(256)),
		I64:    int64(r.Range(-5, 5)) * 1000000007,
		Bytes:  []byte(r.Pick(append(words[:len(words):len(words)], "web-\xff1", "\xfe\xfeab"))),
		Arr:    [3]int{r.Intn(5), r.Intn(5), r.Intn(5)},
		NS:     NamedStr(r.Pick(words)),
		secret: r.Pick(words),
		Skip:   r.Pick(words),
	}
	if r.Chance(0.7) {
		p := genInner(r, 0)
		d.Ptr = &p
	}
	for i, k := 0, r.Intn(4); i < k; i++ {
		if r.Chance(0.35) {
			d.PStr = append(d.PStr, nil)
		} else {
			w := r.Pick(words)
			d.PStr = append(d.PStr, &w)
		}
	}
	for i, k := 0, r.Intn(3); i < k; i++ {
		switch r.Intn(3) {
		case 0:
			d.PPInt = append(d.PPInt, nil)
		case 1:
			var inner *int
			d.PPInt = append(d.PPInt, &inner)
		default:
			x := r.Range(0, 5)
			px := &x
			d.PPInt = append(d.PPInt, &px)
		}
	}
	copy(d.Digest[:], r.Pick([]string{"deadbeef", "cafe0001", "00000000", "web-1\x00\x00\x00", "ab"}))
	d.Code = NamedInt(r.Range(0, 600))
	n := listLen(r, 4)
	d.List = make([]Inner, n, n+1)
	for i := range d.List {
		d.List[i] = genInner(r, 1)
	}
	if n < cap(d.List) {
		d.List[:cap(d.List)][n] = Inner{X: 777001, Y: "SENTINEL"}
	}
	n = r.Intn(3)
	for i := 0; i < n; i++ {
		if r.Chance(0.8) {
			p := genInner(r, 1)
			d.PList = append(d.PList, &p)
		} else {
			d.PList = append(d.PList, nil)
		}
	}
	d.MapS = map[string]Inner{}
	d.MapP = map[string]*Inner{}
	d.MapL = map[string][]int{}
	d.MapM = map[string]map[string]string{}
	d.MapI = map[string]interface{}{}
	d.IntKey = map[int]string{}
	for i, n := 0, r.Intn(4); i < n; i++ {
		d.MapS[r.Pick(keyWords)] = genInner(r, 1)
	}
	for i, n := 0, r.Intn(4); i < n; i++ {
		if r.Chance(0.85) {
			p := genInner(r, 1)
			d.MapP[r.Pick(keyWords)] = &p
		} else {
			d.MapP[r.Pick(keyWords)] = nil
		}
	}
	for i, n := 0, r.Intn(4); i < n; i++ {
		d.MapL[r.Pick(keyWords)] = spareInts(r, r.Intn(3))
	}
	for i, n := 0, r.Intn(3); i < n; i++ {
		d.MapM[r.Pick(keyWords)] = strMap(r, r.Intn(3))
	}
	for i, n := 0, r.Intn(5); i < n; i++ {
		d.MapI[r.Pick(keyWords)] = genScalarOrSmall(r)
	}
	for i, n := 0, r.Intn(3); i < n; i++ {
		d.IntKey[r.Intn(5)] = r.Pick(words)
	}
	switch r.Intn(5) {
	case 0:
		d.Any = r.Pick(words)
	case 1:
		d.Any = r.Range(-3, 12)
	case 2:
		d.Any = genJSON(r, 1, false)
	case 3:
		in := genInner(r, 1)
		d.Any = &in
	}
	switch r.Intn(3) {
	case 0:
		d.W = Wrapper{V: genInner(r, 1)}
	case 1:
		d.W = Wrapper{V: map[string]interface{}{"x": r.Range(0, 3), "s": r.Pick(words)}}
	}
	return d
}

func genScalarOrSmall(r *plan.Rand) interface{} {
	switch r.Intn(9) {
	case 0:
		return r.Range(-3, 12)
	case 1:
		return r.Pick(words)
	case 2:
		return r.Chance(0.5)
	case 3:
		return float64(r.Range(-8, 8)) / 2
	case 4:
		return spareInts(r, r.Intn(3))
	case 5:
		return nil
	case 6:
		return map[string]interface{}{"x": r.Range(0, 3), "y": r.Pick(words)}
	case 7:
		return []interface{}{r.Range(0, 3), r.Pick(words)}
	default:
		return uint16(r.Intn(50))
	}
}

func genJSON(r *plan.Rand, depth int, useNumber bool) interface{} {
	num := func() interface{} {
		if useNumber {
			if r.Chance(0.5) {
				return json.Number(fmt.Sprintf("%d", r.Range(-3, 12)))
			}
			return json.Number(fmt.Sprintf("%d.5", r.Range(-3, 12)))
		}
		if r.Chance(0.5) {
			return float64(r.Range(-3, 12))
		}
		return float64(r.Range(-12, 12)) / 4
	}
	var val func(d int) interface{}
	val = func(d int) interface{} {
		k := r.Intn(8)
		if d >= 3 && k >= 5 {
			k = r.Intn(5)
		}
		switch k {
		case 0:
			return r.Pick(words)
		case 1:
			return num()
		case 2:
			return r.Chance(0.5)
		case 3:
			return nil
		case 4:
			return r.Pick(words)
		case 5, 6:
			n := r.Range(0, 4)
			m := make(map[string]interface{}, n)
			for i := 0; i < n; i++ {
				m[r.Pick(keyWords)] = val(d + 1)
			}
			return m
		default:
			n := listLen(r, 4)
			l := make([]interface{}, n, n+1)
			for i := range l {
				l[i] = val(d + 1)
			}
			if n < cap(l) {
				l[:cap(l)][n] = "SENTINEL"
			}
			return l
		}
	}
	n := r.Range(2, 6)
	m := make(map[string]interface{}, n)
	for i := 0; i < n; i++ {
		m[r.Pick(keyWords)] = val(depth + 1)
	}
	return m
}

// Odd shapes reflection-based code tends to forget: pointers to pointers,
// embedded structs, named primitive types, typed nils inside interfaces,
// arrays of arrays, maps with non-string keys, deep nesting.
type Embedded struct {
	EmbX int
	EmbS string `bexpr:"embs"`
}

type NamedInt int
type NamedBool bool

type OddDoc struct {
	Embedded
	PP       **Inner
	NI       NamedInt
	NB       NamedBool
	NS       NamedStr
	TypedNil interface{}
	Grid     [2][2]int
	ByInt    map[int]Inner
	ByBool   map[bool]string
	Deep     map[string]interface{}
	Iface    interface{}
	Strs     []NamedStr
	PtrS     *[]int
	PtrM     *map[string]int
	Empty    struct{}
}

func genOdd(r *plan.Rand) interface{} {
	in := genInner(r, 1)
	pin := &in
	xs := spareInts(r, listLen(r, 4))
	m := map[string]int{"a": r.Range(0, 3), "b": r.Range(0, 3)}
	d := OddDoc{
		Embedded: Embedded{EmbX: r.Range(0, 5), EmbS: r.Pick(words)},
		PP:       &pin,
		NI:       NamedInt(r.Range(-3, 12)),
		NB:       NamedBool(r.Chance(0.5)),
		NS:       NamedStr(r.Pick(words)),
		TypedNil: (*Inner)(nil),
		Grid:     [2][2]int{{r.Intn(3), r.Intn(3)}, {r.Intn(3), r.Intn(3)}},
		ByInt:    map[int]Inner{1: genInner(r, 1), 22: genInner(r, 1)},
		ByBool:   map[bool]string{true: r.Pick(words), false: r.Pick(words)},
		Iface:    genInner(r, 1),
		Strs:     []NamedStr{NamedStr(r.Pick(words)), NamedStr(r.Pick(words))},
		PtrS:     &xs,
		PtrM:     &m,
	}
	deep := map[string]interface{}{"leaf": r.Range(0, 3), "s": r.Pick(words)}
	for i := 0; i < 6; i++ {
		deep = map[string]interface{}{"d": deep, "n": i, "l": []interface{}{i, deep["s"]}}
	}
	d.Deep = deep
	if r.Chance(0.5) {
		return &d
	}
	return d
}

// genLongList: lists well beyond any small-size fast path whose elements are
// all different, so that skipping or repeating any single element is decisive
// for some `any`/`all` body over them.
func genLongList(r *plan.Rand) interface{} {
	n := r.Range(9, 40)
	xs := make([]int, n)
	ys := make([]interface{}, n)
	ss := make([]string, n)
	inner := make([]Inner, n)
	for i := range xs {
		xs[i] = 100 + i
		ss[i] = fmt.Sprintf("s%d", i)
		if i%2 == 0 {
			ys[i] = 200 + i
		} else {
			ys[i] = fmt.Sprintf("y%d", i)
		}
		inner[i] = Inner{X: 300 + i, Y: fmt.Sprintf("n%d", i), Z: []int{i}}
	}
	return map[string]interface{}{"xs": xs, "ys": ys, "ss": ss, "items": inner, "n": n, "m": map[string]interface{}{"list": ys}}
}

func genTMap(r *plan.Rand, kind string) interface{} {
	n := r.Range(2, 7)
	keys := make([]string, 0, n)
	seen := map[string]bool{}
	for len(keys) < n {
		k := r.Pick(keyWords)
		if !seen[k] {
			seen[k] = true
			keys = append(keys, k)
		}
	}
	switch kind {
	case "int":
		m := map[string]int{}
		for _, k := range keys {
			m[k] = r.Range(0, 3)
		}
		return map[string]interface{}{"m": m, "n": r.Range(0, 3)}
	case "slice":
		m := map[string][]int{}
		for _, k := range keys {
			m[k] = spareInts(r, r.Intn(3))
		}
		return map[string]interface{}{"m": m}
	case "map":
		m := map[string]map[string]string{}
		for _, k := range keys {
			m[k] = strMap(r, r.Intn(3))
		}
		return map[string]interface{}{"m": m}
	case "ptr":
		m := map[string]*Inner{}
		for _, k := range keys {
			if r.Chance(0.75) {
				in := genInner(r, 1)
				m[k] = &in
			} else {
				m[k] = nil
			}
		}
		return map[string]interface{}{"m": m}
	case "inner":
		m := map[string]Inner{}
		for _, k := range keys {
			m[k] = genInner(r, 1)
		}
		return map[string]interface{}{"m": m}
	case "ikey":
		// YAML-style map[interface{}]interface{}
		m := map[interface{}]interface{}{}
		for _, k := range keys {
			m[k] = genScalarOrSmall(r)
		}
		return map[string]interface{}{"m": m}
	case "nkey":
		m := map[NamedStr]interface{}{}
		for _, k := range keys {
			m[NamedStr(k)] = genScalarOrSmall(r)
		}
		return map[string]interface{}{"m": m}
	default: // any
		m := map[string]interface{}{}
		for _, k := range keys {
			m[k] = genScalarOrSmall(r)
		}
		return map[string]interface{}{"m": m}
	}
}

func genColl(r *plan.Rand, kind string) interface{} {
	n := listLen(r, 6)
	switch kind {
	case "slice":
		s := make([]Inner, n, n+2)
		for i := range s {
			s[i] = genInner(r, 1)
		}
		for i := n; i < cap(s); i++ {
			s[:cap(s)][i] = Inner{X: 777000 + i, Y: "SENTINEL"}
		}
		return s
	case "ptrslice":
		s := make([]*Inner, n)
		for i := range s {
			if r.Chance(0.85) {
				in := genInner(r, 1)
				s[i] = &in
			}
		}
		return s
	case "array":
		var a [4]Inner
		for i := range a {
			a[i] = genInner(r, 1)
		}
		return a
	case "arrayptr":
		var a [3]*Inner
		for i := range a {
			in := genInner(r, 1)
			a[i] = &in
		}
		return a
	case "arrayany":
		var a [3]interface{}
		for i := range a {
			a[i] = genInner(r, 1)
		}
		return a
	case "arraymap":
		var a [2]map[string]interface{}
		for i := range a {
			a[i] = map[string]interface{}{"X": r.Range(0, 3), "y": r.Pick(words), "B": r.Chance(0.5)}
		}
		return a
	case "map":
		m := map[string]Inner{}
		for i := 0; i < n+1; i++ {
			m[r.Pick(keyWords)] = genInner(r, 1)
		}
		return m
	case "intmap":
		m := map[int]Inner{}
		for i := 0; i < n+1; i++ {
			m[r.Intn(9)] = genInner(r, 1)
		}
		return m
	case "named":
		s := make(NamedSlice, n)
		for i := range s {
			s[i] = genInner(r, 1)
		}
		return s
	case "namedmap":
		m := NamedMap{}
		for i := 0; i < n+1; i++ {
			m[r.Pick(keyWords)] = genInner(r, 1)
		}
		return m
	case "jsonlist":
		s := make([]map[string]interface{}, n)
		for i := range s {
			s[i] = genJSON(r, 1, false).(map[string]interface{})
		}
		return s
	case "anys":
		s := make([]interface{}, n+1)
		for i := range s {
			s[i] = genScalarOrSmall(r)
		}
		return s
	case "anymap":
		m := map[string]interface{}{}
		for i := 0; i < n+2; i++ {
			m[r.Pick(keyWords)] = genScalarOrSmall(r)
		}
		return m
	case "ptrmap":
		m := map[string]*Inner{}
		for i := 0; i < n+1; i++ {
			if r.Chance(0.8) {
				in := genInner(r, 1)
				m[r.Pick(keyWords)] = &in
			} else {
				m[r.Pick(keyWords)] = nil
			}
		}
		return m
	case "nilslice":
		return []Inner(nil)
	case "empty":
		return map[string]Inner{}
	default: // scalar: not filterable
		return r.Range(0, 9)
	}
}

// genMixed builds the C14 workhorse: a map[string]interface{} under key "m"
// whose i-th entry has a requested outcome class under a requested body.
// spec = "<family>:<classes>", classes a string over {T,F,E}, e.g. "eq:TEF".
func genMixed(spec string) interface{} {
	i := strings.IndexByte(spec, ':')
	fam, classes := spec[:i], spec[i+1:]
	alt, num := false, false
	if strings.HasSuffix(classes, ":alt") {
		// same shape, but the last key has another name
		alt = true
		classes = strings.TrimSuffix(classes, ":alt")
	}
	if strings.HasSuffix(classes, ":num") {
		// keys that look like numbers mixed with keys that merely start with a
		// digit: any "natural" ordering of them is in danger of being cyclic
		num = true
		classes = strings.TrimSuffix(classes, ":num")
	}
	numKeys := []string{"9", "10", "1a", "2", "80", "4a", "443", "10x"}
	switch {
	case strings.HasSuffix(classes, ":pre"):
		// equally long keys with a long common prefix: orderings that look at a
		// prefix, a hash of a prefix or the length only cannot tell them apart
		num = true
		classes = strings.TrimSuffix(classes, ":pre")
		numKeys = []string{"instance-07", "instance-21", "instance-03", "instance-15", "instance-11", "instance-02", "instance-30", "instance-09"}
	case strings.HasSuffix(classes, ":empty"):
		// the empty string is a legal key, and the smallest one
		num = true
		classes = strings.TrimSuffix(classes, ":empty")
		numKeys = []string{"b", "", "a", "c", " ", "d", "0", "e"}
	case strings.HasSuffix(classes, ":case"):
		// keys that collide under case folding
		num = true
		classes = strings.TrimSuffix(classes, ":case")
		numKeys = []string{"env", "ENV", "Env", "eNv", "name", "NAME", "Name", "k"}
	case strings.HasSuffix(classes, ":big"):
		// more entries than any small-size fast path: the class string is
		// repeated five times over prefixed keys
		num = true
		classes = strings.TrimSuffix(classes, ":big")
		numKeys = nil
		for i := 0; i < 5*len(classes); i++ {
			numKeys = append(numKeys, fmt.Sprintf("instance-%02d", (i*7)%97))
		}
		classes = strings.Repeat(classes, 5)
	}
	m := map[string]interface{}{}
	for j, c := range classes {
		k := fmt.Sprintf("k%d", j)
		if num {
			k = numKeys[j%len(numKeys)]
		}
		if alt && j == len(classes)-1 {
			k = "z9"
		}
		m[k] = MixedElem(fam, byte(c), j)
	}
	switch fam {
	case "ieq":
		im := map[interface{}]interface{}{}
		for k, v := range m {
			im[k] = v
		}
		return map[string]interface{}{"m": im, "top": 1}
	case "neq":
		nm := map[NamedStr]interface{}{}
		for k, v := range m {
			nm[NamedStr(k)] = v
		}
		return map[string]interface{}{"m": nm, "top": 1}
	case "tslice":
		tm := map[string][]int{}
		for k, v := range m {
			tm[k] = v.([]int)
		}
		return map[string]interface{}{"m": tm, "top": 1}
	case "tptr":
		tm := map[string]*Inner{}
		for k, v := range m {
			tm[k] = v.(*Inner)
		}
		return map[string]interface{}{"m": tm, "top": 1}
	case "filter", "tfilter", "qfilter", "dfilter", "numin":
		if fam == "tfilter" {
			tm := map[string]*Inner{}
			for k, v := range m {
				tm[k] = v.(*Inner)
			}
			return tm
		}
		return m
	}
	return map[string]interface{}{"m": m, "top": 1}
}

// MixedFamilies maps a family to the quantifier body (over bound value v) or,
// for the filter families, the filter expression evaluated on each element.
var MixedFamilies = map[string]string{
	"eq":      `v == 1`,
	"fold":    `v.env == "prod"`,
	"ieq":     `v == 1`,
	"neq":     `v == 1`,
	"path":    `v.x == 1`,
	"in":      `"a" in v`,
	"re":      `v matches "^a"`,
	"poison":  `v == "a"`,
	"nested":  `any v as w { w == 1 }`,
	"tslice":  `1 in v`,
	"tptr":    `v.X == 1`,
	"filter":  `x == 1`,
	"qfilter": `any m as k, v { v == "abc" }`,
	"tfilter": `X == 1`,
	"deep":    `v.meta.x != "1"`,
	"dfilter": `meta.x != "1"`,
	"ikin":    `"web" in v`,
	"keyre":   `k == "k1"`,
	"eqchain": `v == "1" or v == "on"`,
	"numin":   `"1.5" in w`,
}

// MixedElem returns the element of class c (T, F or E) for family fam.
func MixedElem(fam string, c byte, j int) interface{} {
	switch fam {
	case "eq", "ieq", "neq", "keyre":
		switch c {
		case 'T':
			return 1
		case 'F':
			return 2 + j
		default:
			if j%2 == 0 {
				return []int{1}
			}
			return map[string]interface{}{"z": 1}
		}
	case "qfilter":
		// elements are themselves maps that a quantifier inside the filter
		// expression walks: T is decided by its second key, E errors on its first
		// key before a decisive second one, F has nothing decisive
		switch c {
		case 'T':
			return map[string]interface{}{"m": map[string]interface{}{"a": "zzz", "b": "abc"}}
		case 'F':
			return map[string]interface{}{"m": map[string]interface{}{"a": "zzz", "b": "yyy"}}
		default:
			return map[string]interface{}{"m": map[string]interface{}{"a": 5 + j, "b": "abc"}}
		}
	case "fold":
		// keys that differ only in case, none spelled like the selector: a
		// lenient (case-folding, prefix, trimmed) key match would have to choose
		switch c {
		case 'T':
			return map[string]interface{}{"Env": "prod", "ENV": "prod", "zz": j}
		case 'F':
			return map[string]interface{}{"Env": "dev", "ENV": "dev"}
		default:
			if j%2 == 0 {
				return map[string]interface{}{"Env": "prod", "ENV": 7}
			}
			return map[string]interface{}{"Env": "dev", "ENV": "prod", "eNV": 7}
		}
	case "path", "filter":
		switch c {
		case 'T':
			return map[string]interface{}{"x": 1}
		case 'F':
			if j%2 == 0 {
				return map[string]interface{}{"x": 2}
			}
			return map[string]interface{}{"y": 1}
		default:
			return 5 + j
		}
	case "in":
		switch c {
		case 'T':
			if j%2 == 0 {
				return []string{"b", "a"}
			}
			return "cat"
		case 'F':
			return []string{"b"}
		default:
			return 5 + j
		}
	case "re":
		switch c {
		case 'T':
			return "abc"
		case 'F':
			return "xbc"
		default:
			return 5 + j
		}
	case "poison":
		switch c {
		case 'T':
			return "a"
		case 'F':
			return "b"
		default:
			return "POISON"
		}
	case "nested":
		switch c {
		case 'T':
			return map[string]interface{}{"p": 2, "q": 1}
		case 'F':
			return map[string]interface{}{"p": 2, "q": 3}
		default:
			if j%2 == 0 {
				return map[string]interface{}{"p": []int{1}, "q": 1}
			}
			return 5
		}
	case "deep", "dfilter":
		// records of one Go type whose shapes differ: the selector resolves, misses
		// its last key under an existing map (not present), or misses an intermediate
		// key (an error)
		switch c {
		case 'T':
			if j%2 == 0 {
				return map[string]interface{}{"meta": map[string]interface{}{"x": "2"}}
			}
			return map[string]interface{}{"meta": map[string]interface{}{"y": 1}}
		case 'F':
			return map[string]interface{}{"meta": map[string]interface{}{"x": "1"}}
		default:
			if j%2 == 0 {
				return map[string]interface{}{}
			}
			return map[string]interface{}{"other": j}
		}
	case "numin":
		// records whose lists hold numbers of different kinds: the literal parses
		// as a float and is a syntax error (skipped) as an int or uint
		switch c {
		case 'T':
			return map[string]interface{}{"w": []interface{}{2.5, 1.5, j}}
		case 'F':
			return map[string]interface{}{"w": []interface{}{2.5, float32(3)}}
		default:
			if j%2 == 0 {
				return map[string]interface{}{"w": []interface{}{1, 2, uint(3)}}
			}
			return map[string]interface{}{"w": []interface{}{int64(1), 1.5}}
		}
	case "eqchain":
		// several literals compared with one selector: the int equals the first
		// literal and cannot be compared with the second
		switch c {
		case 'T':
			if j%2 == 0 {
				return 1
			}
			return "on"
		case 'F':
			return "zz"
		default:
			return 7 + j
		}
	case "ikin":
		// maps keyed by interface{} whose keys mix strings with values no string
		// can be compared with
		switch c {
		case 'T':
			return map[interface{}]interface{}{"web": 1, nil: 2, [2]int{1, 2}: 3, 5 + j: 4, 2.5: 5}
		case 'F':
			return map[interface{}]interface{}{"db": 1, nil: 2, [2]int{1, 2}: 3, 7: j}
		default:
			return 5 + j
		}
	case "tslice":
		switch c {
		case 'T':
			return []int{0, 1}
		case 'F':
			return []int{0}
		default:
			return []int(nil) // typed family has no erroring element: in over nil slice is false
		}
	case "tptr", "tfilter":
		switch c {
		case 'T':
			return &Inner{X: 1}
		case 'F':
			return &Inner{X: 2 + j}
		default:
			return (*Inner)(nil)
		}
	}
	panic("unknown mixed family " + fam)
}

// ---- caller-side mutation ----------------------------------------------------

// Mutate changes v in place, deterministically: the same (structure, seed)
// always yields the same change, so it can be applied to the live datum and to
// its pristine rebuild alike. It models a caller editing its own data between
// two Evaluate calls (same pointers, new content).
func Mutate(v interface{}, seed uint64) {
	r := plan.New(plan.Mix(seed, 0x3a7e))
	var leaves []func()
	var walk func(rv reflect.Value, depth int)
	walk = func(rv reflect.Value, depth int) {
		if depth > 5 || !rv.IsValid() {
			return
		}
		switch rv.Kind() {
		case reflect.Ptr, reflect.Interface:
			if !rv.IsNil() {
				walk(rv.Elem(), depth+1)
			}
		case reflect.Struct:
			for i := 0; i < rv.NumField(); i++ {
				f := rv.Field(i)
				if rv.Type().Field(i).PkgPath != "" {
					continue
				}
				walk(f, depth+1)
			}
		case reflect.Slice, reflect.Array:
			for i := 0; i < rv.Len(); i++ {
				walk(rv.Index(i), depth+1)
			}
		case reflect.Map:
			keys := rv.MapKeys()
			sort.Slice(keys, func(i, j int) bool { return fmt.Sprint(keys[i]) < fmt.Sprint(keys[j]) })
			m := rv
			for _, k := range keys {
				k := k
				e := m.MapIndex(k)
				// map entries are not addressable: mutate by replacing the entry
				switch deref(e).Kind() {
				case reflect.Int, reflect.String, reflect.Bool, reflect.Float64:
					leaves = append(leaves, func() {
						cur := m.MapIndex(k)
						if !cur.IsValid() {
							return // deleted by an earlier step of this mutation
						}
						base := deref(cur)
						x := reflect.New(base.Type()).Elem()
						x.Set(base)
						bump(x, r)
						if m.Type().Elem().Kind() == reflect.Interface || x.Type() == m.Type().Elem() {
							m.SetMapIndex(k, x)
						}
					})
				default:
					walk(e, depth+1)
				}
			}
			if m.Type().Key().Kind() == reflect.String && !m.IsNil() {
				leaves = append(leaves, func() {
					if len(keys) > 0 && r.Chance(0.35) {
						// rename an entry: the same map, the same number of entries, another key set
						k := keys[r.Intn(len(keys))]
						val := m.MapIndex(k)
						if val.IsValid() {
							nk := reflect.ValueOf(k.String() + "'").Convert(m.Type().Key())
							if !m.MapIndex(nk).IsValid() {
								cp := reflect.New(val.Type()).Elem()
								cp.Set(val)
								m.SetMapIndex(k, reflect.Value{})
								m.SetMapIndex(nk, cp)
								return
							}
						}
					}
					if len(keys) > 0 && r.Chance(0.5) {
						m.SetMapIndex(keys[r.Intn(len(keys))], reflect.Value{}) // delete
						return
					}
					nv := reflect.New(m.Type().Elem()).Elem()
					if nv.Kind() == reflect.Interface {
						nv.Set(reflect.ValueOf(r.Range(0, 3)))
					} else {
						bump(nv, r)
					}
					m.SetMapIndex(reflect.ValueOf(r.Pick(keyWords)).Convert(m.Type().Key()), nv)
				})
			}
		default:
			if rv.CanSet() {
				rv := rv
				leaves = append(leaves, func() { bump(rv, r) })
			}
		}
	}
	walk(reflect.ValueOf(v), 0)
	if len(leaves) == 0 {
		return
	}
	n := 1 + r.Intn(3)
	for i := 0; i < n; i++ {
		leaves[r.Intn(len(leaves))]()
	}
}

func deref(v reflect.Value) reflect.Value {
	for v.IsValid() && (v.Kind() == reflect.Interface || v.Kind() == reflect.Ptr) && !v.IsNil() {
		v = v.Elem()
	}
	return v
}

func bump(v reflect.Value, r *plan.Rand) {
	if !v.CanSet() {
		return
	}
	switch v.Kind() {
	case reflect.Int, reflect.Int8, reflect.Int16, reflect.Int32, reflect.Int64:
		v.SetInt(int64(r.Range(-3, 12)))
	case reflect.Uint8:
		// bytes stay printable text
		v.SetUint(uint64("abcdefghijklmnopqrstuvwxyz0123456789 =-_"[r.Intn(40)]))
	case reflect.Uint, reflect.Uint16, reflect.Uint32, reflect.Uint64:
		v.SetUint(uint64(r.Intn(50)))
	case reflect.Float32, reflect.Float64:
		v.SetFloat(float64(r.Range(-20, 50)) / 4)
	case reflect.Bool:
		v.SetBool(!v.Bool())
	case reflect.String:
		v.SetString(r.Pick(words))
	}
}
