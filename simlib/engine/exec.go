package engine

import (
	"fmt"
	"reflect"
	"regexp"
	"strings"

	bexpr "github.com/hashicorp/go-bexpr"
	"verif.local/verif/simlib/plan"
	"verif.local/verifsim"
)

type (
	OptSpec   = plan.OptSpec
	ObjSpec   = plan.ObjSpec
	DatumSpec = plan.DatumSpec
)

func hookFor(kind string) bexpr.ValueTransformationHookFn {
	if kind == "" {
		return nil
	}
	return func(v reflect.Value) reflect.Value {
		// injected fault: the documented failure of a hook is returning the
		// value of a nil interface
		if verifsim.HookShouldFail() {
			return reflect.Value{}
		}
		switch kind {
		case "unwrap":
			x := v
			for x.IsValid() && x.Kind() == reflect.Interface && !x.IsNil() {
				x = x.Elem()
			}
			if x.IsValid() && x.Type() == reflect.TypeOf(Wrapper{}) {
				inner := x.Field(0)
				if !inner.IsNil() {
					return inner.Elem()
				}
			}
		case "panicky":
			// user code that panics on one particular value; whatever the library
			// does with such a panic, it must do the same for every caller
			x := v
			for x.IsValid() && x.Kind() == reflect.Interface && !x.IsNil() {
				x = x.Elem()
			}
			if x.IsValid() && x.Kind() == reflect.String {
				switch x.String() {
				case "POISON", "red", "blue", "db", "web-1", "abc":
					panic("hook refuses the value " + x.String())
				}
			}
			if x.IsValid() && x.Kind() == reflect.Int && x.Int() == 3 {
				panic("hook refuses the value 3")
			}
		case "poison":
			x := v
			for x.IsValid() && x.Kind() == reflect.Interface && !x.IsNil() {
				x = x.Elem()
			}
			if x.IsValid() && x.Kind() == reflect.String && x.String() == "POISON" {
				return reflect.Value{}
			}
		}
		return v
	}
}

// Options passed explicitly with their zero value: what the library does with
// "set, but empty" is a place of its own for lazily filled defaults.
const (
	EmptyTag = "<empty>"
	NilHook  = "<nil>"
)

func optionsOf(o OptSpec) []bexpr.Option {
	var opts []bexpr.Option
	switch {
	case o.Tag == EmptyTag:
		opts = append(opts, bexpr.WithTagName("")) // the option passed with its zero value
	case o.Tag != "":
		opts = append(opts, bexpr.WithTagName(o.Tag))
	}
	switch {
	case o.Unknown == "nil":
		opts = append(opts, bexpr.WithUnknownValue(nil))
	case strings.HasPrefix(o.Unknown, "str:"):
		opts = append(opts, bexpr.WithUnknownValue(o.Unknown[4:]))
	case strings.HasPrefix(o.Unknown, "int:"):
		n := 0
		fmt.Sscanf(o.Unknown[4:], "%d", &n)
		opts = append(opts, bexpr.WithUnknownValue(n))
	}
	if o.Hook == NilHook {
		opts = append(opts, bexpr.WithHookFn(nil)) // the option passed with its zero value
	} else if h := hookFor(o.Hook); h != nil {
		opts = append(opts, bexpr.WithHookFn(h))
	}
	if o.Max != 0 {
		opts = append(opts, bexpr.WithMaxExpressions(o.Max))
	}
	return opts
}

// Object is a live evaluator or filter (or the error creating it).
type Object struct {
	Spec ObjSpec
	Ev   *bexpr.Evaluator
	Fl   *bexpr.Filter
	Err  string
	Pan  string
}

// ShallowCopy is `c := *e`: a by-value copy of the evaluator (of the filter,
// which holds its evaluator by pointer), as a caller makes one when it embeds
// the value in a struct of its own.
func (o *Object) ShallowCopy() *Object {
	c := &Object{Spec: o.Spec, Err: o.Err, Pan: o.Pan}
	if o.Ev != nil {
		e := *o.Ev
		c.Ev = &e
	}
	if o.Fl != nil {
		f := *o.Fl
		c.Fl = &f
	}
	return c
}

// NewObject creates the object described by spec; creation errors and panics
// are outcomes, not failures of the harness.
func NewObject(spec ObjSpec) (o *Object) {
	o = &Object{Spec: spec}
	defer func() {
		if r := recover(); r != nil {
			o.Pan = fmt.Sprint(r)
		}
	}()
	var err error
	if spec.Kind == "filter" {
		o.Fl, err = bexpr.CreateFilter(spec.Expr)
	} else {
		o.Ev, err = bexpr.CreateEvaluator(spec.Expr, optionsOf(spec.Opts)...)
	}
	if err != nil {
		o.Err = normErr(err.Error())
	}
	return o
}

// Outcome is what one operation returned, in comparable form.
type Outcome struct {
	Op     string `json:"op"`
	Bool   bool   `json:"bool,omitempty"`
	HasErr bool   `json:"has_err,omitempty"`
	Err    string `json:"err,omitempty"`
	Panic  string `json:"panic,omitempty"`
	Value  string `json:"value,omitempty"` // canonical text of an Execute result / Expression() / creation outcome
	Skip   bool   `json:"skip,omitempty"`  // op had nothing to run on (object failed to create, not yet published)
}

// Same compares two outcomes; withText also compares error texts.
func (o Outcome) Same(p Outcome, withText bool) bool {
	if o.Op != p.Op || o.Bool != p.Bool || o.HasErr != p.HasErr || (o.Panic != "") != (p.Panic != "") || o.Value != p.Value || o.Skip != p.Skip {
		return false
	}
	if withText && (o.Err != p.Err || o.Panic != p.Panic) {
		return false
	}
	return true
}

func (o Outcome) String() string {
	switch {
	case o.Skip:
		return o.Op + ":skip"
	case o.Panic != "":
		return fmt.Sprintf("%s:panic(%s)", o.Op, o.Panic)
	case o.HasErr:
		return fmt.Sprintf("%s:(%v, error %q)", o.Op, o.Bool, o.Err)
	case o.Value != "":
		return fmt.Sprintf("%s:%s", o.Op, clip(o.Value, 300))
	}
	return fmt.Sprintf("%s:(%v, nil)", o.Op, o.Bool)
}

func clip(s string, n int) string {
	if len(s) <= n {
		return s
	}
	return s[:n] + "…"
}

var addrRe = regexp.MustCompile(`0x[0-9a-fA-F]{6,}`)

func normErr(s string) string { return addrRe.ReplaceAllString(s, "0xADDR") }

// Evaluate runs ev.Evaluate(datum) and converts everything into an Outcome.
func (o *Object) Evaluate(datum interface{}) (out Outcome) {
	out.Op = "eval"
	if o.Ev == nil {
		out.Skip = true
		return
	}
	defer func() {
		if r := recover(); r != nil {
			out = Outcome{Op: "eval", Panic: normErr(fmt.Sprint(r))}
		}
	}()
	b, err := o.Ev.Evaluate(datum)
	out.Bool = b
	if err != nil {
		out.HasErr = true
		out.Err = normErr(err.Error())
	}
	return
}

// Execute runs fl.Execute(data).
func (o *Object) Execute(data interface{}) Outcome {
	out, _ := o.ExecuteRaw(data)
	return out
}

// ExecuteRaw also hands back the value the filter returned, so that the caller
// can look at it again later (a returned value must stay what it was).
func (o *Object) ExecuteRaw(data interface{}) (out Outcome, raw interface{}) {
	out.Op = "exec"
	if o.Spec.Kind != "filter" || (o.Fl == nil && (o.Err != "" || o.Pan != "")) {
		out.Skip = true
		return
	}
	defer func() {
		if r := recover(); r != nil {
			out = Outcome{Op: "exec", Panic: normErr(fmt.Sprint(r))}
			raw = nil
		}
	}()
	res, err := o.Fl.Execute(data)
	raw = res
	if err != nil {
		out.HasErr = true
		out.Err = normErr(err.Error())
	}
	if res != nil {
		out.Value = fmt.Sprintf("%T:", res) + Canon(res, false)
	} else if err == nil {
		out.Value = "<nil result, nil error>"
	}
	return
}

// Expression runs ev.Expression().
func (o *Object) Expression() (out Outcome) {
	out.Op = "expr"
	if o.Ev == nil {
		out.Skip = true
		return
	}
	defer func() {
		if r := recover(); r != nil {
			out = Outcome{Op: "expr", Panic: fmt.Sprint(r)}
		}
	}()
	out.Value = o.Ev.Expression()
	return
}

// CreateOutcome describes the creation of an object as an outcome.
func (o *Object) CreateOutcome() Outcome {
	out := Outcome{Op: "create", Panic: o.Pan}
	if o.Err != "" {
		out.HasErr = true
		out.Err = o.Err
	}
	switch {
	case o.Ev != nil:
		out.Value = "evaluator"
		if ast, ok := evaluatorAST(o.Ev); ok && ast != nil {
			out.Value = "evaluator:" + dumpExpr(ast)
		}
	case o.Fl != nil:
		out.Value = "filter"
	case o.Spec.Kind == "filter" && o.Err == "" && o.Pan == "":
		out.Value = "nil-filter"
	}
	return out
}
