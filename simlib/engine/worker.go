package engine

import (
	"encoding/json"
	"fmt"
	"os"
	"sort"
	"time"
)

// WorkerCfg is the command line of a simworker invocation.
type WorkerCfg struct {
	Seed     uint64
	From, To int
	Stride   int
	Tier     string
	File     string
	Deadline time.Time
	K        int
	Emit     func(interface{})
}

func (c WorkerCfg) expired() bool { return !c.Deadline.IsZero() && time.Now().After(c.Deadline) }

// Violation is the engine-independent envelope of a failed oracle; Replay is a
// self-contained document that `simworker <engine>-replay` re-executes.
type Violation struct {
	Type     string          `json:"type"` // "violation"
	Property string          `json:"property"`
	Engine   string          `json:"engine"`
	Kind     string          `json:"kind"`
	Key      string          `json:"key"` // identifies the finding for known_findings.txt
	Detail   string          `json:"detail"`
	Seed     uint64          `json:"seed"`
	Index    int             `json:"index"`
	Replay   json.RawMessage `json:"replay"`
}

func mustJSON(v interface{}) json.RawMessage {
	b, err := json.Marshal(v)
	if err != nil {
		panic(err)
	}
	return b
}

// Dispatch runs one worker command and returns the process exit code:
// 0 done (violations, if any, were emitted as documents), 2 trouble.
func Dispatch(cmd string, cfg WorkerCfg) int {
	if cfg.Stride <= 0 {
		cfg.Stride = 1
	}
	switch cmd {
	case "c11":
		return workerC11(cfg)
	case "c11-replay":
		return replayC11(cfg)
	}
	if f, ok := extraCommands[cmd]; ok {
		return f(cfg)
	}
	fmt.Fprintln(os.Stderr, "unknown command", cmd)
	return 2
}

var extraCommands = map[string]func(WorkerCfg) int{}

// ---- C11 ---------------------------------------------------------------------

type c11Summary struct {
	Type        string         `json:"type"`
	Inputs      int            `json:"inputs"`
	Budgets     int            `json:"budgets"`
	Aborts      int            `json:"aborts"`
	Exhaustive  int            `json:"exhaustive_inputs"`
	Nontrivial  int            `json:"nontrivial_inputs"`
	Residue     int            `json:"residue_checks"`
	NoRef       int            `json:"pathological_inputs"`
	Valid       int            `json:"inputs_that_parse"`
	MaxRatio    float64        `json:"max_statements_per_budget_unit"`
	MaxS        uint64         `json:"max_unlimited_steps"`
	Steps       uint64         `json:"statements_executed"`
	BySource    map[string]int `json:"by_source"`
	Samples     []C11Result    `json:"samples"`
	Signature   string         `json:"budget_error_signature"`
	EntrySites  int            `json:"parse_expr_entry_sites"`
	TwinProbes  int            `json:"fresh_twin_probes"`
	Violations  int            `json:"violations"`
	InputHashes []uint64       `json:"input_hashes"`
}

func hashBytes(b []byte) uint64 {
	h := uint64(1469598103934665603)
	for _, c := range b {
		h ^= uint64(c)
		h *= 1099511628211
	}
	return h
}

func workerC11(cfg WorkerCfg) int {
	env := NewC11Env()
	sum := c11Summary{Type: "summary", BySource: map[string]int{}, Signature: env.Signature, EntrySites: len(env.EntrySites)}
	var steps uint64
	for idx := cfg.From; idx < cfg.To; idx += cfg.Stride {
		if cfg.expired() {
			break
		}
		c := GenC11Input(cfg.Seed, idx, cfg.Tier)
		res := RunC11Case(env, c, cfg.Seed)
		steps += stepsNow()
		sum.Inputs++
		sum.Budgets += res.Budgets
		sum.Aborts += res.Aborts
		sum.Residue += res.ResidueChk
		sum.BySource[c.Source]++
		sum.InputHashes = append(sum.InputHashes, hashBytes(c.Bytes()))
		if res.Exhaustive {
			sum.Exhaustive++
		}
		if res.Nontrivial {
			sum.Nontrivial++
		}
		if c.NoRef {
			sum.NoRef++
		}
		if res.UnlimitedOK {
			sum.Valid++
		}
		if res.MaxRatio > sum.MaxRatio {
			sum.MaxRatio = res.MaxRatio
		}
		if res.S > sum.MaxS {
			sum.MaxS = res.S
		}
		if len(sum.Samples) < 2 && len(res.Violations) == 0 {
			sum.Samples = append(sum.Samples, res)
		}
		if len(res.Violations) > 0 {
			v := res.Violations[0]
			min := MinimizeC11(env, c, v, cfg.Seed)
			r2 := RunC11Case(env, min, cfg.Seed)
			vv := v
			for _, w := range r2.Violations {
				if w.Kind == v.Kind && w.API == v.API {
					vv = w
					break
				}
			}
			sum.Violations++
			cfg.Emit(Violation{Type: "violation", Property: "C11", Engine: "abortsim", Kind: vv.Kind,
				Key:    fmt.Sprintf("C11/%s/%s", vv.Kind, vv.API),
				Detail: fmt.Sprintf("%s: input %s, budget n=%d: %s", vv.API, min.Input, vv.N, vv.Detail),
				Seed:   cfg.Seed, Index: idx,
				Replay: mustJSON(map[string]interface{}{"engine": "abortsim", "property": "C11", "seed": cfg.Seed, "case": min, "violation": vv})})
		}
	}
	sum.TwinProbes = runTwins(env, cfg.Seed, cfg.From, func(v Violation) { cfg.Emit(v) })
	steps += stepsNow()
	sum.Steps = steps
	cfg.Emit(sum)
	return 0
}

func replayC11(cfg WorkerCfg) int {
	if handled, code := replayVolume(cfg); handled {
		return code
	}
	if handled, code := replayTwin(cfg); handled {
		return code
	}
	b, err := os.ReadFile(cfg.File)
	if err != nil {
		fmt.Fprintln(os.Stderr, err)
		return 2
	}
	var doc struct {
		Seed      uint64       `json:"seed"`
		Case      C11Case      `json:"case"`
		Violation C11Violation `json:"violation"`
	}
	if err := json.Unmarshal(b, &doc); err != nil {
		fmt.Fprintln(os.Stderr, err)
		return 2
	}
	env := NewC11Env()
	res := RunC11Case(env, doc.Case, doc.Seed)
	rep, repKind := false, false
	for _, w := range res.Violations {
		if w.Kind == doc.Violation.Kind && w.API == doc.Violation.API {
			rep = true
		}
		if w.Kind == doc.Violation.Kind {
			repKind = true // the same oracle fails again, through the other API
		}
	}
	cfg.Emit(map[string]interface{}{"type": "replay", "reproduced": rep, "reproduced_same_kind": repKind, "result": res})
	return 0
}

func init() {
	extraCommands["show-c11"] = func(cfg WorkerCfg) int {
		for idx := cfg.From; idx < cfg.To; idx += cfg.Stride {
			c := GenC11Input(cfg.Seed, idx, cfg.Tier)
			fmt.Printf("%d %s %s\n", idx, c.Source, c.Input)
		}
		return 0
	}
}

func init() {
	extraCommands["errhist"] = func(cfg WorkerCfg) int {
		hist := map[string]int{}
		for idx := cfg.From; idx < cfg.To; idx++ {
			p := GenSchedPlan(cfg.Seed, idx, "C13")
			h := runHistory(p, nil)
			for t := range h.Recs {
				for _, r := range h.Recs[t] {
					if r.Out.HasErr {
						e := r.Out.Err
						if len(e) > 60 {
							e = e[:60]
						}
						hist[r.Out.Op+": "+e]++
					}
				}
			}
		}
		type kv struct {
			k string
			v int
		}
		var l []kv
		for k, v := range hist {
			l = append(l, kv{k, v})
		}
		sort.Slice(l, func(i, j int) bool { return l[i].v > l[j].v })
		for i, e := range l {
			if i > 25 {
				break
			}
			fmt.Println(e.v, e.k)
		}
		return 0
	}
}
