package engine

import (
	"bytes"
	"encoding/base64"
	"fmt"
	"reflect"
	"sort"
	"strings"
	"time"
	"unsafe"

	bexpr "github.com/hashicorp/go-bexpr"
	"github.com/hashicorp/go-bexpr/grammar"
	"verif.local/verif/simlib/plan"
	"verif.local/verifsim"
)

// ---- abortsim: C11 -----------------------------------------------------------
//
// The parse budget is a cooperative fault point compiled into the parser: abort
// at step n+1, recovered into an error. Enumerating n enumerates abort points
// inside a running parse.

// SuiteInputs are the expressions of the repository's own parser tests (valid
// and invalid), used as one of the input sources.
var SuiteInputs = []string{
	// literals that are cheap to parse and expensive for whoever consumes them
	// later (a pattern with counted repetition compiles to thousands of regexp
	// instructions; a long number; a long selector): the budget is about the
	// parser's steps, nothing else
	"Name matches \"^(ab?){400}$\"", "x not matches `([a-z]{1,30}-){30}end`", "n == 123456789012345678901234567890123456789012345678901234567890",
	"a.b.c.d.e.f.g.h.i.j.k.l.m.n.o.p.q.r.s.t.u.v.w.x.y.z == 1",
	"foo == 3", `"/foo" == 3`, `"/hy-phen/under_score/pi|pe/do.t/ti~lde/co:lon" == 3`, `"/hy-phen/under_score/pi|pe/do.t/ti~lde/" == 3`,
	"foo/bar == 3", "foo != xyz", "list is empty", "list is not empty", "foo in bar", "foo not in bar", "bar contains foo",
	"bar not contains foo", "foo matches bar", "foo not matches bar", "not prod in tags", "port != 80 and port != 8080",
	"port == 80 or port == 443", "foo == \"bar\"", "`foo` not in bar", "x in foo and not str == something or list is empty",
	"x in foo and not (str == something or list is empty)", "\t\r\n  foo \t\r\n not \t\r\n in \t\r\n x \t\r\n",
	"\t\r\n ( \t\r\n foo \t\r\n == \t\r\n x \t\r\n ) \t\r\n", "`environment` in foo.bar[\"meta\"].tags[\t`ENV` ]",
	`environment in foo["bar"]["meta"]["tags"]["ENV"]`, "environment in foo[\"abc-def ghi åß∂ƒ\"]", "foo == \"12x", "foo == `12x",
	"foo == 3x", "foo[3] == abc", "x in foo[\"abc\"", "foo[\"abc\" == 3", "x in 32", "32 == 32", "32 is empty", "x in foo abc",
	"x in foo and ", "x in foo or not ", "foo == 0.2", "foo == -0.2", "(foo == 4", "not not foo == 3",
	`all group.tasks as t { t.name == "hello" }`, `all group.tasks as { t.name == "hello" }`, `all as t { t.name == "hello" }`,
	`all group.tasks as t { all t.test as i { i == "test" }}`, `all group.tasks as k, v { k == v }`,
	`any group.tasks as t { any t.test as t { t == "test" }}`, "", " ", "(", ")", "()", "a", "a ==", "== 1", "\xff == 1", "a == \"\xfe\"",
	"a.b.c.d.e.f.g == 1", "a == 1 and b == 2 and c == 3 and d == 4", "not not not a == 1",
}

// C11Case is one input with the budgets to enumerate; it is also the replay
// document of a C11 violation.
type C11Case struct {
	InputB64 string   `json:"input_b64"`
	Input    string   `json:"input_printable"`
	Source   string   `json:"source"`
	Budgets  []uint64 `json:"budgets,omitempty"` // empty: derive from tier
	Tier     string   `json:"tier"`
	NoRef    bool     `json:"no_unlimited_reference,omitempty"` // pathological: never parse without budget
	Order    string   `json:"order,omitempty"`                  // per API (grammar.Parse, CreateEvaluator): R reference first, L limited first; empty: seeded
}

func (c *C11Case) Bytes() []byte {
	b, _ := base64.StdEncoding.DecodeString(c.InputB64)
	return b
}

func NewC11Case(in []byte, source, tier string) C11Case {
	return C11Case{InputB64: base64.StdEncoding.EncodeToString(in), Input: fmt.Sprintf("%q", in), Source: source, Tier: tier}
}

// GenC11Input derives the idx-th input of a seed.
func GenC11Input(seed uint64, idx int, tier string) C11Case {
	r := plan.New(plan.Mix(seed, uint64(idx)))
	nSuite := len(SuiteInputs)
	switch {
	case idx < nSuite:
		return NewC11Case([]byte(SuiteInputs[idx]), "suite", tier)
	case idx < nSuite+12:
		// pathological nesting: unlimited parse is exponential in depth
		d := 5 + (idx - nSuite)
		var s string
		// the variant is fixed per depth (depth 7 is the plain one: about 2.2M
		// steps, the largest input that still gets an unlimited reference in the
		// quick tier, so budgets above 2^20 are exercised against a reference)
		switch []int{2, 1, 0, 1, 2, 0, 1, 2, 0, 1, 2, 0}[(d-5)%12] {
		case 0:
			s = strings.Repeat("(", d) + "foo == 3" + strings.Repeat(")", d)
		case 1:
			s = strings.Repeat("(", d) + "foo == 3" // unmatched: every level fails twice
		default:
			s = strings.Repeat("( ", d) + "a in b and c != 4" + strings.Repeat(" )", d)
		}
		c := NewC11Case([]byte(s), fmt.Sprintf("nested-%d", d), tier)
		c.NoRef = d >= 9 || (tier != "thorough" && d >= 8)
		return c
	}
	if idx < nSuite+20 {
		// the parser gives up early and never reads a long tail: the step count
		// is far below the input length
		heads := []string{"foo == 1 ", "a in b ", "x is empty ", "(a == 1) ", "not a == 1 ", `"/p/q" != 2 `, "any xs as x { x == 1 } ", "a == 1 and b == 2 "}
		tails := []string{"x", ")", "\"", "é", " a", "(", "== "}
		h := heads[(idx-nSuite-12)%len(heads)]
		t := strings.Repeat(tails[r.Intn(len(tails))], r.Range(600, 4000))
		return NewC11Case([]byte(h+t), "long-unread-tail", tier)
	}
	if idx < nSuite+28 {
		// long flat chains: hundreds of terms, tens of thousands of steps, more
		// parser state (positions, rule results) than any bounded table holds
		terms := []string{"a == 1", "b != 2", "c in d", `e matches "^x"`, "f is empty", `"/g/h" == 3`, "not i == 4", "j.k == 5"}
		n := r.Range(60, 300)
		var b strings.Builder
		for i := 0; i < n; i++ {
			if i > 0 {
				b.WriteString([]string{" and ", " or "}[r.Intn(2)])
			}
			b.WriteString(terms[r.Intn(len(terms))])
		}
		if r.Chance(0.3) {
			b.WriteString([]string{" and", " )", " == ", " or ("}[r.Intn(4)])
		}
		return NewC11Case([]byte(b.String()), "long-chain", tier)
	}
	g := &ExprGen{R: r.Fork(), Uniq: ""}
	root := SyntheticRoot(r)
	e := g.Gen(root, r.Intn(2), r.Intn(3))
	if len(e) > 160 {
		e = g.Gen(root, 0, 1)
	}
	src := "derivation"
	if r.Chance(0.45) {
		e = mutateTokens(r, e)
		src = "mutated"
	}
	return NewC11Case([]byte(e), src, tier)
}

var junkTokens = []string{"(", ")", "and", "or", "not", "==", "!=", `"`, "`", "[", "]", "{", "}", "in", "is", "empty", "1.", "-", ".", ",", "as", "any", "all", "\xff", "\x00", "é", "matches", "_"}

func mutateTokens(r *plan.Rand, e string) string {
	toks := strings.Fields(e)
	if len(toks) == 0 {
		return r.Pick(junkTokens)
	}
	for n := 1 + r.Intn(2); n > 0; n-- {
		i := r.Intn(len(toks))
		switch r.Intn(5) {
		case 0:
			toks = append(toks[:i], toks[i+1:]...)
		case 1:
			toks = append(toks[:i+1], toks[i:]...)
		case 2:
			j := r.Intn(len(toks))
			toks[i], toks[j] = toks[j], toks[i]
		case 3:
			toks[i] = r.Pick(junkTokens)
		default:
			t := toks[i]
			if len(t) > 0 {
				k := r.Intn(len(t))
				toks[i] = t[:k] + r.Pick(junkTokens) + t[k:]
			}
		}
		if len(toks) == 0 {
			break
		}
	}
	return strings.Join(toks, " ")
}

type parseOutcome struct {
	OK     bool   `json:"ok"`
	Dump   string `json:"dump,omitempty"`
	Err    string `json:"err,omitempty"`
	Panic  string `json:"panic,omitempty"`
	NilRes bool   `json:"nil_result"`
}

func (o parseOutcome) same(p parseOutcome) bool {
	return o.OK == p.OK && o.Dump == p.Dump && o.Err == p.Err && o.Panic == p.Panic && o.NilRes == p.NilRes
}

func dumpExpr(e grammar.Expression) (s string) {
	defer func() {
		if r := recover(); r != nil {
			s = fmt.Sprintf("DUMP-PANIC %v", r)
		}
	}()
	var b bytes.Buffer
	e.ExpressionDump(&b, " ", 0)
	return b.String()
}

// evaluatorAST reads the private syntax tree of an Evaluator, if the field is
// still there; ok=false otherwise (then only success/error text is compared).
func evaluatorAST(ev *bexpr.Evaluator) (grammar.Expression, bool) {
	v := reflect.ValueOf(ev).Elem()
	f := v.FieldByName("ast")
	if !f.IsValid() || !f.CanAddr() {
		return nil, false
	}
	x := reflect.NewAt(f.Type(), unsafe.Pointer(f.UnsafeAddr())).Elem().Interface()
	e, ok := x.(grammar.Expression)
	return e, ok
}

const (
	apiParse = 0
	apiEval  = 1
)

var apiNames = []string{"grammar.Parse+MaxExpressions", "bexpr.CreateEvaluator+WithMaxExpressions"}

// limitedParse runs one parse under budget n (useOpt=false: no option at all)
// and returns outcome, parseExpr entries and total steps.
func limitedParse(api int, in []byte, n uint64, useOpt bool, variant int, entrySites []int) (o parseOutcome, entries uint64, steps uint64) {
	var e0 uint64
	for _, s := range entrySites {
		e0 += verifsim.SiteHits(s)
	}
	s0 := verifsim.Steps()
	func() {
		defer func() {
			if r := recover(); r != nil {
				o = parseOutcome{Panic: fmt.Sprint(r)}
			}
		}()
		switch api {
		case apiParse:
			var opts []grammar.Option
			if useOpt {
				if variant%4 == 2 {
					// the option given twice: the last one counts (also when it is 0)
					opts = append(opts, grammar.MaxExpressions(n/2+7))
				}
				opts = append(opts, grammar.MaxExpressions(n))
			}
			if useOpt && variant%4 == 1 {
				// an option value is reusable: parse once with it on a short
				// input, then parse the real input with the very same value
				grammar.Parse("", []byte("q == 1"), opts...)
				e0, s0 = 0, verifsim.Steps()
				for _, s := range entrySites {
					e0 += verifsim.SiteHits(s)
				}
			}
			var val interface{}
			var err error
			if variant%4 == 3 {
				// the same parser entered through its reader wrapper
				val, err = grammar.ParseReader("", bytes.NewReader(in), opts...)
			} else {
				val, err = grammar.Parse("", in, opts...)
			}
			if err != nil {
				o.Err = err.Error()
			}
			if val == nil {
				o.NilRes = true
			} else if ex, ok := val.(grammar.Expression); ok {
				o.Dump = dumpExpr(ex)
			} else {
				o.Dump = fmt.Sprintf("NON-EXPRESSION %T", val)
			}
			o.OK = err == nil && val != nil
		default:
			var opts []bexpr.Option
			if useOpt {
				// the budget must reach the parser whatever else is configured
				switch variant % 8 {
				case 0, 1:
					opts = []bexpr.Option{bexpr.WithMaxExpressions(n)}
				case 6:
					// the option given twice: the last one counts (also when it is 0)
					opts = []bexpr.Option{bexpr.WithMaxExpressions(n/2 + 7), bexpr.WithMaxExpressions(n)}
				case 7:
					opts = []bexpr.Option{bexpr.WithMaxExpressions(0), bexpr.WithUnknownValue(1), bexpr.WithMaxExpressions(1 << 40), bexpr.WithMaxExpressions(n)}
				case 2:
					opts = []bexpr.Option{bexpr.WithTagName("json"), bexpr.WithMaxExpressions(n)}
				case 3:
					opts = []bexpr.Option{bexpr.WithMaxExpressions(n), bexpr.WithUnknownValue("")}
				case 4:
					opts = []bexpr.Option{bexpr.WithMaxExpressions(n), bexpr.WithTagName("bexpr"), nil}
				default:
					opts = []bexpr.Option{bexpr.WithHookFn(func(v reflect.Value) reflect.Value { return v }), bexpr.WithMaxExpressions(n)}
				}
			}
			if useOpt && variant%8 == 1 {
				// the same option values serve two creations
				bexpr.CreateEvaluator("q == 1", opts...)
				e0, s0 = 0, verifsim.Steps()
				for _, s := range entrySites {
					e0 += verifsim.SiteHits(s)
				}
			}
			ev, err := bexpr.CreateEvaluator(string(in), opts...)
			if err != nil {
				o.Err = err.Error()
			}
			if ev == nil {
				o.NilRes = true
			} else if ast, ok := evaluatorAST(ev); ok && ast != nil {
				o.Dump = dumpExpr(ast)
			} else {
				o.Dump = "EVALUATOR"
			}
			o.OK = err == nil && ev != nil
		}
	}()
	for _, s := range entrySites {
		entries += verifsim.SiteHits(s)
	}
	return o, entries - e0, verifsim.Steps() - s0
}

// C11Env holds what is calibrated once per worker process.
type C11Env struct {
	EntrySites []int
	Signature  string // text that identifies the max-expressions error
	K, C       uint64 // proportional work bound: steps <= K*(n+1)+C
}

func NewC11Env() *C11Env {
	env := &C11Env{K: 400, C: 20000}
	for i, s := range verifsim.Sites() {
		if s.Entry && s.Func == "(*parser).parseExpr" {
			env.EntrySites = append(env.EntrySites, i)
		}
	}
	verifsim.Reset()
	verifsim.BeginMain()
	o, _, _ := limitedParse(apiParse, []byte("a == 1"), 1, true, 0, env.EntrySites)
	if o.Err != "" {
		if i := strings.LastIndex(o.Err, ": "); i >= 0 {
			env.Signature = o.Err[i+2:]
		} else {
			env.Signature = o.Err
		}
	}
	return env
}

// C11Violation describes one failed oracle.
type C11Violation struct {
	Kind   string       `json:"kind"`
	API    string       `json:"api"`
	N      uint64       `json:"n"`
	N2     uint64       `json:"n2,omitempty"`
	Detail string       `json:"detail"`
	Got    parseOutcome `json:"got"`
	Want   parseOutcome `json:"unlimited"`
}

// C11Result is the per-input record.
type C11Result struct {
	Case            C11Case        `json:"case"`
	S               uint64         `json:"unlimited_steps"`
	Threshold       [2]uint64      `json:"threshold"`
	Budgets         int            `json:"budgets_tried"`
	Aborts          int            `json:"aborts_injected"`
	Exhaustive      bool           `json:"exhaustive"`
	ResidueChk      int            `json:"residue_checks"`
	MaxRatio        float64        `json:"max_steps_per_budget_unit"`
	Violations      []C11Violation `json:"violations,omitempty"`
	UnlimitedOK     bool           `json:"unlimited_ok"`
	Nontrivial      bool           `json:"nontrivial"`
	RefTooExpensive bool           `json:"unlimited_reference_too_expensive,omitempty"`
}

func budgetsFor(c *C11Case, S uint64, r *plan.Rand) (bs []uint64, exhaustive bool) {
	if len(c.Budgets) > 0 {
		return c.Budgets, false
	}
	// costCap bounds the parser steps spent on one input through one API
	exLimit := uint64(1500)
	geoMax := uint64(1) << 18
	samples := uint64(24)
	costCap := uint64(3) << 20
	if c.Tier == "thorough" {
		exLimit = 4096
		geoMax = 1 << 22
		samples = 96
		costCap = 10 << 20
	}
	set := map[uint64]bool{}
	add := func(n uint64) {
		if n >= 1 {
			set[n] = true
		}
	}
	if !c.NoRef && S <= exLimit {
		for n := uint64(1); n <= S+2; n++ {
			add(n)
		}
		exhaustive = true
	} else {
		for n := uint64(1); n <= 64; n++ {
			add(n)
		}
		if !c.NoRef {
			geoMax = S + 2
			if 6*S >= costCap {
				// the sweep itself would blow the cost cap: stop it early, the
				// threshold is still bracketed by the near-threshold budgets
				geoMax = costCap / 6
			}
			var near, rnd uint64
			if 6*S < costCap {
				rest := (costCap - 6*S) / (S + 1)
				near = rest / 3
				if near > 64 {
					near = 64
				}
				rnd = rest - near
				if rnd > samples {
					rnd = samples
				}
			}
			if near < 2 {
				near = 2
				if 6*S >= costCap {
					near = 1
				}
			}
			for d := uint64(0); d <= near; d++ {
				add(S + d)
				if S > d {
					add(S - d)
				}
			}
			for i := uint64(0); i < rnd; i++ {
				add(1 + r.Uint64()%(S+2))
			}
		}
		for n := uint64(1); n <= geoMax; n *= 2 {
			add(n)
			add(n + 1)
			if n > 1 {
				add(n - 1)
			}
		}
	}
	if !c.NoRef {
		// very large budgets are unlimited in effect (and must not wrap around,
		// be truncated or be clamped below the step count)
		huge := []uint64{1 << 31, 1<<32 + 1, 1 << 62, 1 << 63, ^uint64(0) - 1, ^uint64(0)}
		if 6*S >= costCap {
			huge = []uint64{1<<32 + 1, ^uint64(0)} // each of them costs a full parse
		}
		for _, n := range huge {
			add(n)
		}
	}
	for n := range set {
		bs = append(bs, n)
	}
	sort.Slice(bs, func(i, j int) bool { return bs[i] < bs[j] })
	return bs, exhaustive
}

// RunC11Case enumerates the abort points of one input and applies the oracles.
//
// Each API is driven in one of two orders (seeded per input and API, so that
// over a run both orders meet both APIs): "reference first" parses without a
// budget and then sweeps the budgets; "limited first" locates the threshold
// through the public option alone (geometric ascent, then bisection) before the
// input is ever parsed without a budget through that API. The outcome for a
// budget must not depend on which of the two happened before.
func RunC11Case(env *C11Env, c C11Case, seed uint64) C11Result {
	in := c.Bytes()
	res := C11Result{Case: c}
	r := plan.New(plan.Mix(seed, 0xc11))
	verifsim.Reset()
	verifsim.BeginMain()
	other := []byte("zz == 1 and (b in c)")
	refOther, _, _ := limitedParse(apiParse, other, 0, false, 0, env.EntrySites)

	order := c.Order
	if len(order) != 2 {
		bit := plan.Mix(seed, hashBytes(in)) & 1
		order = []string{"RL", "LR"}[bit]
	}
	res.Case.Order = order
	isBudgetErr := func(o parseOutcome) bool {
		return o.Panic == "" && !o.OK && o.NilRes && o.Dump == "" && env.Signature != "" && strings.Contains(o.Err, env.Signature)
	}
	geoCap := uint64(1) << 18
	if c.Tier == "thorough" {
		geoCap = 1 << 22
	}
	var ref [2]parseOutcome
	for api := 0; api < 2 && len(res.Violations) <= 8; api++ {
		viol := func(kind string, n, n2 uint64, detail string, got parseOutcome) {
			res.Violations = append(res.Violations, C11Violation{Kind: kind, API: apiNames[api], N: n, N2: n2, Detail: detail, Got: got, Want: ref[api]})
		}
		// probe runs one limited parse and applies the work bounds
		probe := func(n uint64, variant int) (parseOutcome, bool) {
			// a limited parse that is still running long after its proportional
			// bound is stopped by the simulator (the parser turns the cap panic
			// into an error) and reported, instead of hanging the worker
			n1c := n + 1
			if n1c == 0 {
				n1c = ^uint64(0)
			}
			if n1c < (^uint64(0)/4-env.C)/(2*env.K) {
				verifsim.SetHardCap(verifsim.Steps() + 2*(env.K*n1c+env.C) + 100000)
			}
			o, entries, steps := limitedParse(api, in, n, true, variant, env.EntrySites)
			verifsim.SetHardCap(0)
			if verifsim.CapHit() {
				verifsim.ClearCapHit()
				res.Budgets++
				viol("work-proportional", n, 0, fmt.Sprintf("limited parse was still running after %d statements (more than twice %d*(n+1)+%d) and was stopped by the simulator", steps, env.K, env.C), o)
				return o, false
			}
			res.Budgets++
			be := isBudgetErr(o)
			if ratio := float64(steps) / (float64(n) + 1); ratio > res.MaxRatio && be {
				res.MaxRatio = ratio
			}
			// n+1 and K*(n+1)+C saturate instead of wrapping around for huge budgets
			n1 := n + 1
			if n1 == 0 {
				n1 = ^uint64(0)
			}
			propBound := ^uint64(0)
			if n1 < (^uint64(0)-env.C)/env.K {
				propBound = env.K*n1 + env.C
			}
			if len(env.EntrySites) > 0 && entries > n1 {
				viol("work-bound", n, 0, fmt.Sprintf("limited parse executed %d parser steps (parseExpr entries), more than n+1 = %d", entries, n+1), o)
			} else if steps > propBound {
				viol("work-proportional", n, 0, fmt.Sprintf("limited parse executed %d statements, more than %d*(n+1)+%d", steps, env.K, env.C), o)
			}
			if be {
				res.Aborts++
			}
			return o, be
		}
		unlimited := func() uint64 {
			refCap := uint64(110000000) // statements; about 4.5M parser steps
			if c.Tier == "thorough" {
				refCap = 700000000
			}
			verifsim.SetHardCap(verifsim.Steps() + refCap)
			o, entries, _ := limitedParse(api, in, 0, false, 0, env.EntrySites)
			verifsim.SetHardCap(0)
			if verifsim.CapHit() {
				res.RefTooExpensive = true
				return 0
			}
			ref[api] = o
			if isBudgetErr(o) {
				viol("zero-differs", 0, 0, "a parse without any budget failed with the max-expressions error", o)
			}
			// n = 0 means unlimited
			if entries < 300000 {
				// ... also when an earlier option of the same list had set a budget
				z6, _, _ := limitedParse(api, in, 0, true, 6, env.EntrySites)
				if !z6.same(o) {
					viol("zero-differs", 0, 0, "budget 0 given after another budget in the same option list must behave like no budget (the last one counts)", z6)
				}
			}
			z, _, _ := limitedParse(api, in, 0, true, 0, env.EntrySites)
			if !z.same(o) {
				viol("zero-differs", 0, 0, "budget 0 must behave like no budget", z)
			}
			return entries
		}
		var S uint64
		if order[api] == 'L' {
			// locate the threshold before any unlimited parse
			var lo, hi uint64 // lo fails, hi succeeds
			var atHi parseOutcome
			found := false
			for n := uint64(1); n <= geoCap; n *= 2 {
				o, be := probe(n, 0)
				if be {
					lo = n
					continue
				}
				hi, atHi, found = n, o, true
				break
			}
			for found && hi-lo > 1 {
				mid := lo + (hi-lo)/2
				o, be := probe(mid, 0)
				if be {
					lo = mid
				} else {
					hi, atHi = mid, o
				}
			}
			if !c.NoRef {
				e := unlimited()
				S = e
				if found && !atHi.same(ref[api]) {
					viol("third-outcome", hi, 0, "the first budget that does not fail gives a result different from the parse without budget that followed it", atHi)
				}
				if found && e < hi-1 && len(env.EntrySites) > 0 && e > 0 {
					// informative only: threshold above the step count is allowed by the statement
				}
				if S == 0 && found {
					S = hi
				}
			} else if found {
				S = hi
			}
		} else if !c.NoRef {
			S = unlimited()
		}
		if res.RefTooExpensive {
			// the unlimited parse of this input blows up (exponential nesting):
			// treat it like the pathological family, which never parses without a
			// budget (geometric sweep; step bound, error shape and monotonicity only)
			cc := c
			cc.NoRef = true
			cc.Order = order
			r2 := RunC11Case(env, cc, seed)
			r2.RefTooExpensive = true
			return r2
		}
		if api == apiParse {
			res.S = S
			res.UnlimitedOK = ref[apiParse].OK
		}
		bs, exhaustive := budgetsFor(&c, S, r)
		if api == apiParse {
			res.Exhaustive = exhaustive
		}
		var firstOK uint64
		haveOK := false
		var okOutcome parseOutcome
		for i, n := range bs {
			o, budgetErr := probe(n, i)
			var unlimitedLike bool
			if c.NoRef {
				unlimitedLike = !budgetErr && o.Panic == "" && (o.OK || o.Err != "")
				if unlimitedLike && haveOK && !o.same(okOutcome) {
					res.Violations = append(res.Violations, C11Violation{Kind: "third-outcome", API: apiNames[api], N: n, N2: firstOK,
						Detail: "two budgets above the threshold give different results", Got: o, Want: okOutcome})
				}
			} else {
				unlimitedLike = o.same(ref[api])
			}
			switch {
			case budgetErr:
				if !c.NoRef && len(env.EntrySites) > 0 && S > 0 && n > S {
					// exactness: a budget that covers every step of the unlimited
					// parse (S entries of parseExpr, one spare for a >= comparison)
					// must not be refused
					viol("budget-not-exact", n, S, fmt.Sprintf("budget %d fails with the max-expressions error although the unlimited parse takes only %d parser steps", n, S), o)
				}
				if haveOK {
					viol("non-monotone", n, firstOK, fmt.Sprintf("budget %d fails although the smaller budget %d gave the unlimited result", n, firstOK), o)
				}
				// residue: the abort happened with rule/variable/recovery stacks arbitrarily deep
				if i%17 == 0 || i+1 == len(bs) || (i+1 < len(bs) && bs[i+1] >= S && !c.NoRef) {
					res.ResidueChk++
					o2, _, _ := limitedParse(apiParse, other, 0, false, 0, env.EntrySites)
					if !o2.same(refOther) {
						res.Violations = append(res.Violations, C11Violation{Kind: "residue", API: apiNames[api], N: n,
							Detail: "after an aborted parse, an unlimited parse of another input deviates", Got: o2, Want: refOther})
					}
					if !c.NoRef && S < 200000 {
						o3, _, _ := limitedParse(api, in, 0, false, 0, env.EntrySites)
						if !o3.same(ref[api]) {
							viol("residue", n, 0, "after an aborted parse, an unlimited parse of the same input deviates", o3)
						}
					}
				}
			case unlimitedLike:
				if !haveOK {
					haveOK, firstOK, okOutcome = true, n, o
				}
			default:
				viol("third-outcome", n, 0, "neither the unlimited result nor a nil result with the max-expressions error", o)
			}
			if len(res.Violations) > 8 {
				break
			}
		}
		res.Threshold[api] = firstOK
	}
	res.Nontrivial = res.Aborts > 0 && (c.NoRef || res.Threshold[0] > 0)
	return res
}

// MinimizeC11 shrinks the input (and pins the budgets) while a violation of
// the same kind and API persists.
func MinimizeC11(env *C11Env, c C11Case, v C11Violation, seed uint64) C11Case {
	pin := func(in []byte) C11Case {
		cc := c
		cc.InputB64 = base64.StdEncoding.EncodeToString(in)
		cc.Input = fmt.Sprintf("%q", in)
		return cc
	}
	fails := func(cc C11Case) (bool, C11Violation) {
		r := RunC11Case(env, cc, seed)
		for _, w := range r.Violations {
			if w.Kind == v.Kind && w.API == v.API {
				return true, w
			}
		}
		return false, C11Violation{}
	}
	cur := c.Bytes()
	budget := 400
	stop := time.Now().Add(10 * time.Second)
	in := plan.DDMinBytesStop(cur, func(cand []byte) bool {
		if budget <= 0 || time.Now().After(stop) {
			return false
		}
		budget--
		ok, _ := fails(pin(cand))
		return ok
	}, func() bool { return budget <= 0 || time.Now().After(stop) })
	out := pin(in)
	if ok, w := fails(out); ok {
		bs := []uint64{w.N}
		if w.N2 != 0 {
			bs = []uint64{w.N2, w.N}
			sort.Slice(bs, func(i, j int) bool { return bs[i] < bs[j] })
		}
		try := out
		try.Budgets = bs
		if ok2, _ := fails(try); ok2 {
			return try
		}
		return out
	}
	return c
}

func stepsNow() uint64 { return verifsim.Steps() }
