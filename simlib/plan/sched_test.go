package plan

import (
	"encoding/json"
	"testing"
)

// An expression that is not valid UTF-8 must survive the trip through a plan
// file byte for byte (it used to come back with U+FFFD in it, and the executing
// process then created another expression than the generating one).
func TestObjSpecJSONKeepsInvalidUTF8(t *testing.T) {
	for _, e := range []string{"a == 1", "line matches \"^\xc3\"", "\xff\xfe", ""} {
		p := SchedPlan{Objects: []ObjSpec{{Kind: "evaluator", Expr: e}}, Tasks: [][]SOp{{{Kind: "create", New: &ObjSpec{Kind: "filter", Expr: e}}}}}
		b, err := json.Marshal(&p)
		if err != nil {
			t.Fatal(err)
		}
		var q SchedPlan
		if err := json.Unmarshal(b, &q); err != nil {
			t.Fatal(err)
		}
		if q.Objects[0].Expr != e || q.Tasks[0][0].New.Expr != e {
			t.Fatalf("expression %q came back as %q / %q", e, q.Objects[0].Expr, q.Tasks[0][0].New.Expr)
		}
	}
}
