package plan

// DDMinIdx is delta debugging over index sets: it returns a (1-minimal up to
// the budget the caller enforces inside fails) subset of 0..n-1 for which
// fails still holds. fails(all) is assumed to hold.
func DDMinIdx(n int, fails func(keep []int) bool) []int {
	return DDMinIdxStop(n, fails, nil)
}

// DDMinIdxStop is DDMinIdx with an abort condition: once stop() is true the
// current (still failing) subset is returned at once.
func DDMinIdxStop(n int, fails func(keep []int) bool, stop func() bool) []int {
	cur := make([]int, n)
	for i := range cur {
		cur[i] = i
	}
	gran := 2
	for len(cur) >= 2 {
		chunk := (len(cur) + gran - 1) / gran
		reduced := false
		// try complements (remove one chunk)
		for start := 0; start < len(cur); start += chunk {
			if stop != nil && stop() {
				return cur
			}
			end := start + chunk
			if end > len(cur) {
				end = len(cur)
			}
			cand := make([]int, 0, len(cur)-(end-start))
			cand = append(cand, cur[:start]...)
			cand = append(cand, cur[end:]...)
			if len(cand) < len(cur) && fails(cand) {
				cur = cand
				if gran > 2 {
					gran--
				}
				reduced = true
				break
			}
		}
		if !reduced {
			if gran >= len(cur) {
				break
			}
			gran *= 2
			if gran > len(cur) {
				gran = len(cur)
			}
		}
	}
	if len(cur) == 1 && fails(nil) {
		return nil
	}
	return cur
}

// DDMinBytes shrinks a byte string while fails holds.
func DDMinBytes(in []byte, fails func([]byte) bool) []byte {
	return DDMinBytesStop(in, fails, nil)
}

// DDMinBytesStop is DDMinBytes with an abort condition.
func DDMinBytesStop(in []byte, fails func([]byte) bool, stop func() bool) []byte {
	keep := DDMinIdxStop(len(in), func(k []int) bool {
		b := make([]byte, len(k))
		for i, j := range k {
			b[i] = in[j]
		}
		return fails(b)
	}, stop)
	out := make([]byte, len(keep))
	for i, j := range keep {
		out[i] = in[j]
	}
	return out
}
