// Package plan holds what the driver and the workers share and that does not
// depend on go-bexpr: the PRNG, the plan/replay documents and delta debugging.
package plan

// Rand is a splitmix64 generator: one integer decides everything.
type Rand struct{ s uint64 }

func Mix(a, b uint64) uint64 {
	z := a + 0x9e3779b97f4a7c15*(b+1)
	z = (z ^ (z >> 30)) * 0xbf58476d1ce4e5b9
	z = (z ^ (z >> 27)) * 0x94d049bb133111eb
	return z ^ (z >> 31)
}

func New(seed uint64) *Rand { return &Rand{s: seed} }

func (r *Rand) Uint64() uint64 {
	r.s += 0x9e3779b97f4a7c15
	z := r.s
	z = (z ^ (z >> 30)) * 0xbf58476d1ce4e5b9
	z = (z ^ (z >> 27)) * 0x94d049bb133111eb
	return z ^ (z >> 31)
}

// Intn returns a value in [0, n); n <= 0 yields 0.
func (r *Rand) Intn(n int) int {
	if n <= 0 {
		return 0
	}
	return int(r.Uint64() % uint64(n))
}

// Range returns a value in [lo, hi].
func (r *Rand) Range(lo, hi int) int {
	if hi <= lo {
		return lo
	}
	return lo + r.Intn(hi-lo+1)
}

func (r *Rand) Float() float64 { return float64(r.Uint64()>>11) / (1 << 53) }

// Chance is true with probability p.
func (r *Rand) Chance(p float64) bool { return r.Float() < p }

func (r *Rand) Pick(ss []string) string {
	if len(ss) == 0 {
		return ""
	}
	return ss[r.Intn(len(ss))]
}

func (r *Rand) Perm(n int) []int {
	p := make([]int, n)
	for i := range p {
		p[i] = i
	}
	for i := n - 1; i > 0; i-- {
		j := r.Intn(i + 1)
		p[i], p[j] = p[j], p[i]
	}
	return p
}

// Fork derives an independent generator.
func (r *Rand) Fork() *Rand { return New(Mix(r.Uint64(), 0x5eed)) }
