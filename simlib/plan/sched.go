package plan

import (
	"encoding/base64"
	"encoding/json"
	"fmt"
	"unicode/utf8"

	"verif.local/verifsim"
)

// OptSpec is the serialisable form of the evaluator options.
type OptSpec struct {
	Tag     string `json:"tag,omitempty"`     // "" (default bexpr) or a tag name
	Unknown string `json:"unknown,omitempty"` // "", "str:<s>", "int:<n>", "nil"
	Hook    string `json:"hook,omitempty"`    // "", identity, unwrap, poison
	Max     uint64 `json:"max,omitempty"`     // WithMaxExpressions (0: not passed)
}

// ObjSpec names a long-lived object under test.
type ObjSpec struct {
	Kind string  `json:"kind"` // evaluator | filter
	Expr string  `json:"expr"`
	Opts OptSpec `json:"opts"`
	// CopyOf > 0: the object is a by-value copy (`c := *e`) of shared object
	// CopyOf-1, made before either of them is used
	CopyOf int `json:"copy_of,omitempty"`
}

// An expression is arbitrary bytes (generated patterns may cut a string in the
// middle of a rune); encoding/json would silently replace invalid UTF-8 with
// U+FFFD and the process that executes a plan would create another expression
// than the process that generated it. Such texts travel base64-encoded.
type objSpecJSON struct {
	Kind    string  `json:"kind"`
	Expr    string  `json:"expr"`
	ExprB64 string  `json:"expr_b64,omitempty"`
	Opts    OptSpec `json:"opts"`
	CopyOf  int     `json:"copy_of,omitempty"`
}

func (o ObjSpec) MarshalJSON() ([]byte, error) {
	j := objSpecJSON{Kind: o.Kind, Expr: o.Expr, Opts: o.Opts, CopyOf: o.CopyOf}
	if !utf8.ValidString(o.Expr) {
		j.Expr = ""
		j.ExprB64 = base64.StdEncoding.EncodeToString([]byte(o.Expr))
	}
	return json.Marshal(j)
}

func (o *ObjSpec) UnmarshalJSON(b []byte) error {
	var j objSpecJSON
	if err := json.Unmarshal(b, &j); err != nil {
		return err
	}
	o.Kind, o.Expr, o.Opts, o.CopyOf = j.Kind, j.Expr, j.Opts, j.CopyOf
	if j.ExprB64 != "" {
		raw, err := base64.StdEncoding.DecodeString(j.ExprB64)
		if err != nil {
			return err
		}
		o.Expr = string(raw)
	}
	return nil
}

// DatumSpec names a deterministic constructor (see engine.Build).
type DatumSpec struct {
	Gen  string   `json:"gen"`
	Seed uint64   `json:"seed"`
	Muts []uint64 `json:"muts,omitempty"`
}

func (d DatumSpec) String() string {
	return fmt.Sprintf("%s/%d+%d", d.Gen, d.Seed, len(d.Muts))
}

// SOp is one operation of a simulated caller.
type SOp struct {
	Kind   string   `json:"op"`              // eval exec expr create mutate gc
	Obj    int      `json:"obj"`             // shared object index, or local object index when Local
	Local  bool     `json:"local,omitempty"` // Obj refers to the Obj-th object this task created itself
	Datum  int      `json:"datum"`
	FailAt int      `json:"fail_at,omitempty"` // the FailAt-th hook invocation of this op fails
	Tape   []uint64 `json:"tape,omitempty"`    // map-order tape
	New    *ObjSpec `json:"new,omitempty"`     // create
	Mut    uint64   `json:"mut,omitempty"`     // mutate
	// Scribble != 0: the caller edits the container Execute returned to it (adds
	// or overwrites an entry); the result is the caller's to keep and to change
	Scribble uint64 `json:"scribble,omitempty"`
	// Jumps: the simulated clock jumps while this op runs (only matters if the
	// library reads the clock or arms timers)
	Jumps []verifsim.ClockJump `json:"clock_jumps,omitempty"`
}

// SchedPlan is a complete, self-contained simulated run: objects, data, the
// operations of every caller, and the schedule. It is the replay document of
// the simsched engine.
type SchedPlan struct {
	Engine   string           `json:"engine"`
	Property string           `json:"property"`
	Build    string           `json:"build"` // plain | race
	Seed     uint64           `json:"seed"`
	Index    int              `json:"index"`
	Objects  []ObjSpec        `json:"objects"`
	Primed   []bool           `json:"primed,omitempty"`
	Data     []DatumSpec      `json:"data"`
	Tasks    [][]SOp          `json:"tasks"`
	Policy   string           `json:"policy"`
	First    int              `json:"first"`
	Quantum  int              `json:"quantum,omitempty"`
	Points   []verifsim.Point `json:"points,omitempty"`
	Expect   string           `json:"expect,omitempty"`                  // violation key this replay is expected to reproduce
	Procs    int              `json:"gomaxprocs,omitempty"`              // GOMAXPROCS of the worker process (0: 1)
	Aged     int              `json:"process_aged_with_calls,omitempty"` // the process ran engine.AgeProcess(seed, n) before the plan
	// Slice: the seeded slice of plans the finding process had generated and
	// executed in-process before this one (first index, stride, property flag); a
	// second way to replay a finding that depends on what the process did before
	SliceFrom   int    `json:"slice_from,omitempty"`
	SliceStride int    `json:"slice_stride,omitempty"`
	SliceK      int    `json:"slice_k,omitempty"`
	Pick        uint64 `json:"pick,omitempty"`      // != 0: the next task at a switch is drawn from this stream (round-robin otherwise)
	SimProcs    int    `json:"sim_procs,omitempty"` // number of processors reported to the library (0: one)
	// RefOut: outcome classes of every op as measured by the (purely sequential)
	// generating process; the executing process compares its own runs with them
	RefOut [][]string `json:"ref_out,omitempty"`
}

func (p *SchedPlan) Clone() *SchedPlan {
	q := *p
	q.Objects = append([]ObjSpec(nil), p.Objects...)
	q.Primed = append([]bool(nil), p.Primed...)
	q.Data = append([]DatumSpec(nil), p.Data...)
	q.Points = append([]verifsim.Point(nil), p.Points...)
	q.RefOut = make([][]string, len(p.RefOut))
	for i, r := range p.RefOut {
		q.RefOut[i] = append([]string(nil), r...)
	}
	q.Tasks = make([][]SOp, len(p.Tasks))
	for i, t := range p.Tasks {
		q.Tasks[i] = make([]SOp, len(t))
		for j, o := range t {
			o.Tape = append([]uint64(nil), o.Tape...)
			q.Tasks[i][j] = o
		}
	}
	return &q
}

func (p *SchedPlan) NOps() int {
	n := 0
	for _, t := range p.Tasks {
		n += len(t)
	}
	return n
}

// DropTask removes caller t; change points are renumbered.
func (p *SchedPlan) DropTask(t int) *SchedPlan {
	q := p.Clone()
	q.Tasks = append(q.Tasks[:t], q.Tasks[t+1:]...)
	if t < len(q.RefOut) {
		q.RefOut = append(q.RefOut[:t], q.RefOut[t+1:]...)
	}
	var pts []verifsim.Point
	for _, pt := range q.Points {
		if pt.Task == t {
			continue
		}
		if pt.Task > t {
			pt.Task--
		}
		if pt.To > t {
			pt.To--
		} else if pt.To == t {
			pt.To = 0
		}
		pts = append(pts, pt)
	}
	q.Points = pts
	if q.First > t {
		q.First--
	} else if q.First == t {
		q.First = 0
	}
	return q
}

// DropOp removes the j-th operation of caller t. Operations that refer to a
// local object created by the dropped op are dropped with it.
func (p *SchedPlan) DropOp(t, j int) *SchedPlan {
	q := p.Clone()
	ops := q.Tasks[t]
	drop := map[int]bool{j: true}
	if ops[j].Kind == "create" {
		// index of the local object this op creates
		li := 0
		for i := 0; i < j; i++ {
			if ops[i].Kind == "create" {
				li++
			}
		}
		for i := j + 1; i < len(ops); i++ {
			if ops[i].Local {
				if ops[i].Obj == li {
					drop[i] = true
				} else if ops[i].Obj > li {
					ops[i].Obj--
				}
			}
		}
	}
	var kept []SOp
	var keptRef []string
	remap := make([]int, len(ops))
	for i, o := range ops {
		if drop[i] {
			remap[i] = -1
			continue
		}
		remap[i] = len(kept)
		kept = append(kept, o)
		if t < len(q.RefOut) && i < len(q.RefOut[t]) {
			keptRef = append(keptRef, q.RefOut[t][i])
		}
	}
	q.Tasks[t] = kept
	if t < len(q.RefOut) {
		q.RefOut[t] = keptRef
	}
	var pts []verifsim.Point
	for _, pt := range q.Points {
		if pt.Task == t {
			if pt.Op >= len(remap) || remap[pt.Op] < 0 {
				continue
			}
			pt.Op = remap[pt.Op]
		}
		pts = append(pts, pt)
	}
	q.Points = pts
	return q
}

// DropPoint removes the i-th change point.
func (p *SchedPlan) DropPoint(i int) *SchedPlan {
	q := p.Clone()
	q.Points = append(q.Points[:i], q.Points[i+1:]...)
	return q
}

// Compact removes shared objects and data that no operation refers to and
// renumbers the references. Data that creation-only plans never use are kept
// to one entry so that object priming still has something to run on.
func (p *SchedPlan) Compact() *SchedPlan {
	q := p.Clone()
	usedObj := make([]bool, len(q.Objects))
	usedDat := make([]bool, len(q.Data))
	for _, t := range q.Tasks {
		for _, o := range t {
			if !o.Local && o.Obj >= 0 && o.Obj < len(usedObj) && (o.Kind == "eval" || o.Kind == "exec" || o.Kind == "expr") {
				usedObj[o.Obj] = true
			}
			if o.Datum >= 0 && o.Datum < len(usedDat) && (o.Kind == "eval" || o.Kind == "exec" || o.Kind == "mutate") {
				usedDat[o.Datum] = true
			}
		}
	}
	for i, u := range usedObj {
		if u && q.Objects[i].CopyOf > 0 && q.Objects[i].CopyOf-1 < len(usedObj) {
			usedObj[q.Objects[i].CopyOf-1] = true // the source of a used copy stays
		}
	}
	objMap := make([]int, len(q.Objects))
	var objs []ObjSpec
	var primed []bool
	for i, u := range usedObj {
		objMap[i] = -1
		if u {
			objMap[i] = len(objs)
			objs = append(objs, q.Objects[i])
			if i < len(q.Primed) {
				primed = append(primed, q.Primed[i])
			}
		}
	}
	datMap := make([]int, len(q.Data))
	var data []DatumSpec
	for i, u := range usedDat {
		datMap[i] = -1
		if u {
			datMap[i] = len(data)
			data = append(data, q.Data[i])
		}
	}
	if len(data) == 0 && len(q.Data) > 0 {
		data = append(data, q.Data[0])
	}
	for ti := range q.Tasks {
		for oi := range q.Tasks[ti] {
			o := &q.Tasks[ti][oi]
			if !o.Local && o.Obj >= 0 && o.Obj < len(objMap) {
				o.Obj = objMap[o.Obj]
			}
			if o.Datum >= 0 && o.Datum < len(datMap) {
				o.Datum = datMap[o.Datum]
			}
		}
	}
	for i := range objs {
		if c := objs[i].CopyOf; c > 0 {
			if c-1 < len(objMap) && objMap[c-1] >= 0 {
				objs[i].CopyOf = objMap[c-1] + 1
			} else {
				objs[i].CopyOf = 0
			}
		}
	}
	q.Objects, q.Primed, q.Data = objs, primed, data
	return q
}
